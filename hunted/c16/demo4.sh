#!/bin/bash
# C16 violation no. 4: wrap_comments=true.
# A comment line whose list marker (`-`, `*`, `+`, `1.`) is indented with multi-byte white space
# (two U+3000 IDEOGRAPHIC SPACE as typed by a CJK input method, or three U+00A0) makes rustfmt
# panic in ItemizedBlock::new (src/comment.rs:503: the indentation is counted in chars and then
# used as a byte index) -> exit status 101.
. "$(dirname "$0")/common.sh"
try control  "wrap_comments=true" '// Items:\n//   - item one\nfn f() {}\n'
try u3000    "wrap_comments=true" '// Items:\n// \xe3\x80\x80\xe3\x80\x80- item one\nfn f() {}\n'
try nbsp_doc "wrap_comments=true" '/// \xc2\xa0\xc2\xa0\xc2\xa0* item one\nfn f() {}\n'
try u3000_off ""                  '// Items:\n// \xe3\x80\x80\xe3\x80\x80- item one\nfn f() {}\n'
exit $bad
