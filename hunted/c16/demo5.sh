#!/bin/bash
# C16 violation no. 5: format_strings=true.
# A string literal that carries a non-ASCII suffix (`"abc"é`; the lexer and parser accept a suffix on
# any literal, it is rejected only later) makes rewrite_string_lit panic: src/expr.rs:1333
# `&string_lit[1..string_lit.len() - 1]` assumes that the last byte is the closing quote.
# -> exit status 101. (With an ASCII suffix the same line silently mangles the literal.)
. "$(dirname "$0")/common.sh"
try control   "format_strings=true" 'fn f() {\n    let s = "abc";\n}\n'
try suffix    "format_strings=true" 'fn f() {\n    let s = "abc"\xc3\xa9;\n}\n'
try suffix_off ""                   'fn f() {\n    let s = "abc"\xc3\xa9;\n}\n'
exit $bad
