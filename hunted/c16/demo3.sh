#!/bin/bash
# C16 violation no. 3: DEFAULT configuration, valid Rust.
# A qualified path `<Type as Trait>::Assoc<Args>` in which the character that follows the self type
# is one of the multi-byte characters rustc's lexer treats as white space (U+200E LEFT-TO-RIGHT MARK,
# U+200F, U+2028, U+2029, U+0085): src/types.rs:85 `span_lo = qself.ty.span.hi() + BytePos(1)`
# lands inside that character and the next snippet lookup (rewrite_segment -> span_after "<")
# panics in SnippetProvider::span_to_snippet (src/visitor.rs:46, byte index is not a char boundary)
# -> exit status 101.  Same arithmetic, other place: `trait A /* c */<U+2028><T> {}` (src/items.rs:1244,
# `generics.span.lo() - BytePos(1)`).
. "$(dirname "$0")/common.sh"
try control   "" 'type A = <S as G>::R<T>;\n'
try lrm_type  "" 'type A = <S\xe2\x80\x8e as G>::R<T>;\n'
try ls_expr   "" 'fn f() {\n    let x = <S\xe2\x80\xa8 as G>::r::<T>();\n}\n'
try nel_qself "" 'type A = <S\xc2\x85>::R<T>;\n'
try trait_gen "" 'trait A /* c */\xe2\x80\xa8<T> {}\n'
exit $bad
