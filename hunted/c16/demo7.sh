#!/bin/bash
# C16 violation no. 7: indent_style=Visual (binaries built with overflow checks, i.e. the dev profile).
# A where clause on an item nested four to five levels deep on a narrow but usable page:
# src/items.rs:3186 `let budget = context.config.max_width() - offset.width();`
# "attempt to subtract with overflow" -> exit status 101.
. "$(dirname "$0")/common.sh"
SRC='mod a {\n    mod b {\n        mod c {\n            mod d {\n                fn f<T>()\n                    where T: Sized\n                {\n                }\n            }\n        }\n    }\n}\n'
try control       "max_width=40,tab_spaces=8"                    "$SRC"
try visual_40_8   "max_width=40,tab_spaces=8,indent_style=Visual" "$SRC"
try visual_20_4   "max_width=20,tab_spaces=4,indent_style=Visual" "$SRC"
try visual_25_5   "max_width=25,tab_spaces=5,indent_style=Visual" 'impl A {\n    fn f() {\n        if a {\n            fn g<T>() where T: Sized {}\n        }\n    }\n}\n'
exit $bad
