# sourced by the demo scripts: $1 = directory holding the built binaries
BIN=${1:?usage: $0 <dir holding the built binaries>}
RUSTFMT=$(cd "$BIN" && pwd)/rustfmt
SYSROOT=$(cd "$(dirname "${BASH_SOURCE[0]}")/.." && rustc --print sysroot 2>/dev/null)
export LD_LIBRARY_PATH="$SYSROOT/lib${LD_LIBRARY_PATH:+:$LD_LIBRARY_PATH}"
T=$(mktemp -d) || exit 2
trap 'rm -rf "$T"' EXIT
cd "$T" || exit 2
export HOME="$T" XDG_CONFIG_HOME="$T"      # no stray user configuration
: > rustfmt.toml                            # and an empty project configuration
bad=0
# try NAME CONFIG PRINTF-FORMAT : writes the file, formats it with --check, reports the status
try() {
    printf "$3" > "$1.rs"
    timeout 120 "$RUSTFMT" --check ${2:+--config "$2"} "$1.rs" > "$1.out" 2> "$1.err"
    rc=$?
    if [ $rc -ne 0 ] && [ $rc -ne 1 ]; then
        echo "VIOLATION [$1${2:+, $2}]: exit status $rc"
        grep -a -m1 -A1 "panicked at\|overflowed its stack" "$1.err" | cut -c1-200
        bad=1
    else
        echo "ok [$1${2:+, $2}]: exit status $rc"
    fi
}
