#!/bin/bash
# C16 violation no. 1 (best): DEFAULT configuration, valid Rust.
# An enum whose generic parameter list or where clause cannot be laid out within max_width (one
# unbreakable bound / default type / predicate longer than the page) makes rustfmt panic:
# src/items.rs:556  `format_generics(..).unwrap()` on None  ->  exit status 101.
# struct, union, trait, impl, fn, type alias with the same generics are fine (they leave the item as is).
. "$(dirname "$0")/common.sh"
LONG=$(printf 'a%.0s' $(seq 1 110))         # one path segment of 110 characters
try control_struct ""  "struct S<T: some::$LONG::Trait> {\n    a: T,\n}\n"
try enum_bound     ""  "enum E<T: some::$LONG::Trait> {\n    A(T),\n}\n"
try enum_where     ""  "enum E<T>\nwhere\n    T: some::$LONG::Trait,\n{\n    A(T),\n}\n"
try enum_default   ""  "enum E<T = some::$LONG::Type> {\n    A(T),\n}\n"
# the same at a narrow (but usable: >= 20 columns, >= 5 indentation steps) page with everyday names
try enum_narrow "max_width=30,indent_style=Visual" 'enum E<T> where T: Iterator<Item = u8> { A(T) }\n'
try enum_narrow2 "max_width=30" 'enum E<T> where T: std::iter::IntoIterator<Item = u8> { A(T) }\n'
exit $bad
