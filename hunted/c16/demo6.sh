#!/bin/bash
# C16 violation no. 6: any configuration (binaries built with overflow checks, i.e. the dev profile).
# A comment inside a block whose indentation is larger than max_width -- the sixth nesting level on a
# page that is exactly five indentation steps wide (max_width=20/tab_spaces=4, 40/8, 30/6), or level 26
# at the defaults -- src/missed_spans.rs:266 `self.config.max_width() - self.block_indent.width()`
# "attempt to subtract with overflow" -> exit status 101.
. "$(dirname "$0")/common.sh"
SRC='fn f() {\n    loop {\n        loop {\n            loop {\n                loop {\n                    loop {\n                        // comment\n                        b();\n                    }\n                }\n            }\n        }\n    }\n}\n'
NOC='fn f() {\n    loop {\n        loop {\n            loop {\n                loop {\n                    loop {\n                        b();\n                    }\n                }\n            }\n        }\n    }\n}\n'
try control_no_comment "max_width=20,tab_spaces=4" "$NOC"
try control_wide       "max_width=60,tab_spaces=4" "$SRC"
try comment_20_4       "max_width=20,tab_spaces=4" "$SRC"
try comment_40_8       "max_width=40,tab_spaces=8" "$SRC"
try comment_30_6       "max_width=30,tab_spaces=6" "$SRC"
exit $bad
