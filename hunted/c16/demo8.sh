#!/bin/bash
# C16 violation no. 8: wrap_comments=true (binaries built with overflow checks, i.e. the dev profile).
# A line comment with a custom opener that contains multi-byte characters (`//→→→→→→ text`), long
# enough to be wrapped and whose last wrapped line is short: src/comment.rs:874
# `1 + last_line_width(&self.result) - self.line_start.len()` mixes a display width with a byte length
# -> "attempt to subtract with overflow", exit status 101.
. "$(dirname "$0")/common.sh"
W='word word word word word word word word word word word word'
A='\xe2\x86\x92'   # U+2192 RIGHTWARDS ARROW
try control   "wrap_comments=true" "//!!!!!! $W x\n//!!!!!! next line\nfn f() {}\n"
try arrows    "wrap_comments=true" "//$A$A$A$A$A$A $W x\n//$A$A$A$A$A$A next line\nfn f() {}\n"
exit $bad
