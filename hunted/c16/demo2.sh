#!/bin/bash
# C16 violation no. 2: DEFAULT configuration, valid Rust.
# A "blank" line that holds a multi-byte character which is white space both for rustc's lexer and
# for str::trim (U+2028 LINE SEPARATOR, U+2029 PARAGRAPH SEPARATOR, U+0085 NEXT LINE), placed after
# a comment, makes rustfmt panic in src/missed_spans.rs:216 (`&snippet[status.line_start..]`,
# byte index is not a char boundary) -> exit status 101.
. "$(dirname "$0")/common.sh"
try control ""  '// a comment\n\nfn f() {}\n'
try u2028   ""  '// a comment\n\xe2\x80\xa8\nfn f() {}\n'
try u2029   ""  'fn g() {} // trailing comment\n\xe2\x80\xa9\nfn f() {}\n'
try u0085   ""  '/* block */\n\xc2\x85\nfn f() {}\n'
try in_body ""  'fn f() {\n    let a = 1; // c\n\xe2\x80\xa8\n    let b = 2;\n}\n'
# same through stdin
printf '// a comment\n\xe2\x80\xa8\nfn f() {}\n' | "$RUSTFMT" > stdin.out 2> stdin.err; rc=$?
if [ $rc -ne 0 ] && [ $rc -ne 1 ]; then
    echo "VIOLATION [stdin]: exit status $rc"; grep -a -m1 -A1 "panicked at" stdin.err | cut -c1-200; bad=1
else
    echo "ok [stdin]: exit status $rc"
fi
exit $bad
