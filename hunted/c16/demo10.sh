#!/bin/bash
# C16 violation no. 10 (weak: circular module inclusion is not "ordinary nesting", but the process dies
# from SIGABRT instead of printing a diagnostic): a file that includes itself through a path spelled
# with `..`. The resolver recognises an already parsed file only by the exact spelling of its path
# (ParseSess::is_file_parsed), so `x/../a.rs` is parsed again and again; without the inline modules the
# recursion ends with ENAMETOOLONG ("... does not exist", exit 1); with ten inline `#[path = "."]`
# modules around the declaration each round costs many more stack frames than path bytes and the
# main thread overflows its stack first.
. "$(dirname "$0")/common.sh"
mkdir x
K=10
{ for i in $(seq $K); do printf '#[path = "."]\nmod q {\n'; done
  printf '#[path = "x/../cycle.rs"]\nmod a;\n'
  for i in $(seq $K); do printf '}\n'; done; } > cycle.rs
timeout 300 "$RUSTFMT" --check cycle.rs > cycle.out 2> cycle.err; rc=$?
if [ $rc -ne 0 ] && [ $rc -ne 1 ]; then
    echo "VIOLATION [module cycle]: exit status $rc"; grep -a -m1 "overflowed its stack\|panicked" cycle.err; bad=1
else
    echo "ok [module cycle]: exit status $rc"; tail -c 200 cycle.err
fi
exit $bad
