#!/bin/bash
# C16 violation no. 9 (minor): blank_lines_upper_bound = 18446744073709551615 (usize::MAX, "no limit")
# is accepted without a warning; any input with a blank region then panics in
# src/missed_spans.rs:118 `self.config.blank_lines_upper_bound() + 1` ("attempt to add with overflow",
# binaries built with overflow checks) -> exit status 101.
. "$(dirname "$0")/common.sh"
try control "blank_lines_upper_bound=1000000"              'fn f() {}\n\n\n\nfn g() {}\n'
try max     "blank_lines_upper_bound=18446744073709551615" 'fn f() {}\n\n\n\nfn g() {}\n'
exit $bad
