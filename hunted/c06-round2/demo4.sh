#!/bin/bash
# C06 -- "the text implied by the other emitters' reports": the checkstyle report
#  (a) says nothing at all about a file whose reformatting only REMOVES lines (it lists the
#      `Expected` lines of each mismatch and drops the `Resulting` ones), while --check exits 1,
#      json / modified-lines report the change and plain rustfmt rewrites the file;
#  (b) is not well-formed XML whenever the file name needs escaping -- always on standard input
#      (`<file name="<stdin>">`), and for paths containing & < or " -- so no text can be read
#      from it; a TAB in a message (hard_tabs) is written raw into the attribute, where every XML
#      parser normalises it to a space.
. "$(dirname "$0")/common.sh"
: > rustfmt.toml
bad=0
xml_ok() { python3 -c 'import sys,xml.dom.minidom as m; m.parse(sys.argv[1])' "$1" 2>/dev/null; }
n_errors() { python3 -c 'import sys,xml.dom.minidom as m; print(len(m.parse(sys.argv[1]).getElementsByTagName("error")))' "$1"; }

# (a) deletions only
printf 'fn a() {}\n\n\n\nfn b() {}\n' > del.rs
"$R" --check del.rs > /dev/null 2>&1; rc=$?
"$R" --emit checkstyle del.rs > del.xml
"$R" --emit json del.rs > del.json
cp del.rs del2.rs; "$R" del2.rs
echo "(a) --check exit=$rc; plain rustfmt $(cmp -s del.rs del2.rs && echo 'leaves the file' || echo 'rewrites the file'); json: $(cat del.json)"
echo "    checkstyle: $(tail -n1 del.xml)"
if [ $rc -eq 1 ] && xml_ok del.xml && [ "$(n_errors del.xml)" = 0 ]; then
    echo "VIOLATION: the checkstyle report implies the file is formatted (no <error>), the other emitters and --check say it is not"
    bad=1
fi

# (b) well-formedness
printf 'fn  a( ) { }\n' > 'x&y.rs'
"$R" --emit checkstyle 'x&y.rs' > amp.xml
"$R" --emit checkstyle < 'x&y.rs' > stdin.xml
for f in amp.xml stdin.xml; do
    if ! xml_ok $f; then
        echo "VIOLATION: checkstyle report is not well-formed XML: $(tail -n1 $f)"
        bad=1
    fi
done
printf 'hard_tabs = true\n' > rustfmt.toml
printf 'fn a() {\nlet x = 1;\n}\n' > tab.rs
"$R" --emit checkstyle tab.rs > tab.xml
want=$("$R" --emit stdout --quiet tab.rs | sed -n 2p)
got=$(python3 -c 'import sys,xml.dom.minidom as m; print(m.parse(sys.argv[1]).getElementsByTagName("error")[0].getAttribute("message")[len("Should be `"):-1])' tab.xml)
if [ "$want" != "$got" ]; then
    printf '(b) line 2 per --emit stdout: %q, per the checkstyle report as an XML parser reads it: %q\n' "$want" "$got"
    echo "VIOLATION: the line implied by the checkstyle report differs from the text of --emit stdout (TAB not escaped as &#9;)"
    bad=1
fi
[ $bad -eq 0 ] && echo "property holds"
exit $bad
