# sourced by the demos: $1 = directory holding the built binaries
BIN=${1:?usage: $0 <dir with the built binaries>}
BIN=$(cd "$BIN" && pwd)
if [ -z "$LD_LIBRARY_PATH" ]; then
    SYSROOT=$(cd "$BIN/../.." 2>/dev/null && rustc --print sysroot 2>/dev/null)
    [ -n "$SYSROOT" ] && export LD_LIBRARY_PATH="$SYSROOT/lib"
fi
R="$BIN/rustfmt"
T=$(mktemp -d) || exit 2
trap 'rm -rf "$T"' EXIT
cd "$T" || exit 2
"$R" --version >/dev/null || { echo "cannot run $R (LD_LIBRARY_PATH?)"; exit 2; }
