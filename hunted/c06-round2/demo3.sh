#!/bin/bash
# C06 -- "the stdout, diff, json, checkstyle and modified-lines emitters never modify a file":
# when the emit mode comes from the rustfmt.toml found next to the source (no --config-path), the
# effective configuration says Stdout / Json / Checkstyle / Diff / ModifiedLines, but the emitter was
# created before that file was read, from the defaults (Files): the source file is overwritten.
# With --config-path naming the very same rustfmt.toml the file is left alone.
. "$(dirname "$0")/common.sh"
bad=0
for mode in Stdout Json Checkstyle Diff ModifiedLines; do
    rm -rf p && mkdir p
    printf 'unstable_features = true\nemit_mode = "%s"\n' "$mode" > p/rustfmt.toml
    printf 'fn  a( ) { }\n' > p/f.rs
    cp p/f.rs orig.rs
    eff=$("$R" --print-config current p/f.rs | grep '^emit_mode')
    # reference: same toml, named explicitly
    "$R" --config-path p/rustfmt.toml p/f.rs > ref.out 2>&1; rc_ref=$?
    ref_state=$(cmp -s p/f.rs orig.rs && echo untouched || echo REWRITTEN)
    cp orig.rs p/f.rs
    # the toml is discovered from the file's directory
    "$R" p/f.rs > out.txt 2> err.txt; rc=$?
    state=$(cmp -s p/f.rs orig.rs && echo untouched || echo REWRITTEN)
    echo "$eff | --config-path p/rustfmt.toml: exit=$rc_ref file $ref_state | discovered: exit=$rc stdout=$(wc -c < out.txt)B stderr=$(wc -c < err.txt)B file $state"
    if [ "$state" = REWRITTEN ]; then
        echo "VIOLATION: effective emit_mode is $mode, yet 'rustfmt p/f.rs' modified p/f.rs"
        bad=1
    fi
done
[ $bad -eq 0 ] && echo "property holds"
exit $bad
