#!/bin/bash
# C06 -- "all emit modes agree on the text": a macro_rules! arm whose body starts with an inner
# `#![rustfmt::skip]` makes the nested (snippet) formatting session echo the body straight to the
# process's real standard output, whatever the emit mode of the real run is.
#   usage: demo.sh <dir holding rustfmt>        exit 1 = property violated, 0 = holds
BIN=${1:?usage: demo.sh <dir with the built binaries>}
BIN=$(cd "$BIN" && pwd)
if [ -z "$LD_LIBRARY_PATH" ]; then
    SYSROOT=$(cd "$BIN/../.." 2>/dev/null && rustc --print sysroot 2>/dev/null)
    [ -n "$SYSROOT" ] && export LD_LIBRARY_PATH="$SYSROOT/lib"
fi
R="$BIN/rustfmt"
T=$(mktemp -d) || exit 2
trap 'rm -rf "$T"' EXIT
cd "$T" || exit 2
: > rustfmt.toml                      # default configuration, stops the upward search

cat > f.rs <<'RS'
macro_rules! gen {
    () => {
        #![rustfmt::skip]
        fn  generated( ) { }
    };
}
fn  main( ) { }
RS
"$R" --version >/dev/null || { echo "cannot run $R (LD_LIBRARY_PATH?)"; exit 2; }

bad=0

# 1. text of --emit stdout (path and stdin) against the text written by --emit files
"$R" --emit stdout --quiet f.rs > stdout.txt 2> stdout.err; rc_s=$?
"$R" < f.rs > stdin.txt 2> stdin.err;                       rc_i=$?
cp f.rs files.rs
"$R" files.rs > files.out 2> files.err;                     rc_f=$?
echo "exit codes: stdout=$rc_s stdin=$rc_i files=$rc_f (no error reported: $(cat stdout.err stdin.err files.err | wc -c) bytes on stderr)"
if ! cmp -s stdout.txt files.rs; then
    echo "VIOLATION: text printed by '--emit stdout' differs from the text written by '--emit files':"
    diff stdout.txt files.rs | sed 's/^/    /'
    bad=1
fi
if ! cmp -s stdin.txt files.rs; then
    echo "VIOLATION: text produced for the same source on standard input differs from the text written by '--emit files'"
    bad=1
fi
if [ -s files.out ]; then
    echo "VIOLATION: plain 'rustfmt FILE' (no -l, no -v) printed a piece of the source on stdout:"
    sed 's/^/    /' files.out; echo
    bad=1
fi

# 2. the reports of the other emitters
"$R" --emit json f.rs > json.txt 2>/dev/null
if ! python3 -c 'import json,sys; json.load(open("json.txt"))' 2>/dev/null; then
    echo "VIOLATION: '--emit json' output is not JSON:"
    sed 's/^/    /' json.txt
    bad=1
fi
"$R" --emit checkstyle f.rs > cs.txt 2>/dev/null
if ! python3 -c 'import xml.dom.minidom as m; m.parse("cs.txt")' 2>/dev/null; then
    echo "VIOLATION: '--emit checkstyle' output is not XML:"
    sed 's/^/    /' cs.txt
    bad=1
fi
"$R" --check -l f.rs > checkl.txt 2>/dev/null
if [ "$(cat checkl.txt)" != "$T/f.rs" ] && [ "$(cat checkl.txt)" != "$(realpath f.rs)" ]; then
    echo "VIOLATION: '--check -l' does not print just the file name:"
    sed 's/^/    /' checkl.txt
    bad=1
fi
# the same source formatted as formatted: the stray text is still there although nothing is to do
"$R" --check files.rs > check2.txt 2>/dev/null; rc=$?
if [ $rc -eq 0 ] && [ -s check2.txt ]; then
    echo "VIOLATION: '--check' on the already formatted file exits 0 but prints:"
    sed 's/^/    /' check2.txt; echo
    bad=1
fi

[ $bad -eq 0 ] && echo "property holds"
exit $bad
