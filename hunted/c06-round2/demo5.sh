#!/bin/bash
# C06 -- default configuration (newline_style = "Auto"), a correctly formatted file with CRLF line
# endings: `--emit stdout` (and the same source on stdin) print the text with LF endings, i.e.
# bytes that differ from the file, but --check exits 0, the reports are empty and files mode does
# not touch the file.  So the text of --emit stdout / stdin is NOT the text the other emitters
# imply (file is fine as it is).  As soon as one line needs reformatting, files mode writes the
# LF text and silently converts every line ending of the file.
# Mechanism differs from F44 (diff::lines): the "original" and the text used to auto-detect the
# newline style come from rustc's SourceMap, which has already normalised CRLF to LF (and removed a
# BOM), so `Auto` can never detect Windows line endings and never sees the difference.
. "$(dirname "$0")/common.sh"
: > rustfmt.toml
bad=0
printf 'fn main() {\r\n    let x = 1;\r\n}\r\n' > ok.rs
cp ok.rs orig.rs
"$R" --check ok.rs > check.txt 2>&1; rc=$?
"$R" --emit stdout --quiet ok.rs > stdout.txt
"$R" < ok.rs > stdin.txt
"$R" --emit json ok.rs > json.txt
"$R" ok.rs
echo "--check exit=$rc, json=$(cat json.txt), files mode $(cmp -s ok.rs orig.rs && echo 'leaves the file' || echo 'rewrites the file')"
echo "--emit stdout: $(od -An -c stdout.txt | tr -s ' ' | tr -d '\n')"
echo "file on disk : $(od -An -c ok.rs | tr -s ' ' | tr -d '\n')"
if [ $rc -eq 0 ] && cmp -s ok.rs orig.rs && ! cmp -s stdout.txt ok.rs; then
    echo "VIOLATION: --check/json/files say the file already is its formatted text, --emit stdout prints different bytes"
    bad=1
fi
if [ $rc -eq 0 ] && ! cmp -s stdin.txt ok.rs; then
    echo "VIOLATION: same for the source on standard input"
    bad=1
fi
[ $bad -eq 0 ] && echo "property holds"
exit $bad
