#!/bin/bash
# C05 -- a module with a syntax error ("const X = 1;", an error rustc holds back instead of
# emitting on the spot) is accepted, rewritten from the recovered AST and the run exits 0 without
# a diagnostic, when a file of the `ignore` list was parsed before it and left the
# "errors may be forgiven" flag of the parse session set:
#   variant A: the ignored file is VALID Rust that merely draws a lexer *warning*
#   variant B: the ignored file holds a cfg_if! whose arm has a syntax error the parser recovers from
# usage: demo.sh <dir with the built binaries>
BIN=${1:?usage: demo.sh <bindir>}
BIN=$(cd "$BIN" && pwd)
if [ -z "$LD_LIBRARY_PATH" ]; then
  SYSROOT=$(cd "$BIN/../.." 2>/dev/null && rustc --print sysroot 2>/dev/null)
  [ -n "$SYSROOT" ] && export LD_LIBRARY_PATH=$SYSROOT/lib
fi
RF=$BIN/rustfmt
T=$(mktemp -d)
trap 'rm -rf "$T"' EXIT
violated=0

setup() { # $1 dir, $2 ignore list, $3 content of ig.rs
  mkdir -p "$1"
  printf 'ignore = %s\n' "$2" > "$1/rustfmt.toml"
  printf 'mod ig;\nmod n;\n' > "$1/lib.rs"
  printf '%s' "$3" > "$1/ig.rs"
  printf 'const X = 1;\npub fn  unformatted( ) { }\n' > "$1/n.rs"
}
run() { # $1 label, $2 dir
  cp "$2/n.rs" "$2.n.orig"
  (cd "$2" && "$RF" lib.rs) > "$2.out" 2> "$2.err"; rc=$?
  echo "== $1: exit status $rc, $(wc -l < "$2.err") lines on stderr"
  if cmp -s "$2/n.rs" "$2.n.orig"; then
    echo "   n.rs keeps its bytes"
  else
    echo "   n.rs (syntax error: const without a type) was REWRITTEN:"; sed 's/^/      | /' "$2/n.rs"
    return 1
  fi
  [ $rc -eq 1 ] || { echo "   exit status is not 1"; return 1; }
  [ -s "$2.err" ] || { echo "   no diagnostic"; return 1; }
  return 0
}

WARN_SRC=$(printf 'pub const S: &str = "a \\\n\n   b";\n')          # valid Rust; rustc: "warning: multiple lines skipped by escaped newline"
CFGIF_SRC=$(printf 'cfg_if! {\n    if #[cfg(x)] {\n        struct S { a: u8 b: u8 }\n    }\n}\n')

setup "$T/control" '[]' "$WARN_SRC"
run "control (same files, nothing ignored)" "$T/control" || { echo "control failed?!"; }

setup "$T/a" '["ig.rs"]' "$WARN_SRC"
run "variant A (ignored file is valid Rust with a lexer warning)" "$T/a" || violated=1

setup "$T/b" '["ig.rs"]' "$CFGIF_SRC"
run "variant B (ignored file has a cfg_if! arm with a recovered syntax error)" "$T/b" || violated=1

if [ $violated -eq 1 ]; then echo "C05 VIOLATED"; exit 1; fi
echo "C05 holds"; exit 0
