#!/bin/bash
# C05, diagnostic clause only (minor): a root file that is on the `ignore` list and has a syntax
# error the parser cannot recover from makes `rustfmt root.rs` end with exit status 1 and NOT ONE
# line of output: the only diagnostic was swallowed by the ignore filter, and the root-file path
# (unlike the module path, which prints "failed to resolve mod ...: cannot parse ...") has no
# message of its own. Nothing is written (that part of C05 holds).
# usage: demo2.sh <dir with the built binaries>
BIN=${1:?usage: demo2.sh <bindir>}
BIN=$(cd "$BIN" && pwd)
if [ -z "$LD_LIBRARY_PATH" ]; then
  SYSROOT=$(cd "$BIN/../.." 2>/dev/null && rustc --print sysroot 2>/dev/null)
  [ -n "$SYSROOT" ] && export LD_LIBRARY_PATH=$SYSROOT/lib
fi
RF=$BIN/rustfmt
T=$(mktemp -d); trap 'rm -rf "$T"' EXIT
cd "$T"
printf 'ignore = ["lib.rs"]\n' > rustfmt.toml
printf 'mod a;\nstruct S { a: u8 b: u8 } fn\n' > lib.rs      # parse_crate_mod returns Err
printf 'fn  a( ) { }\n' > a.rs
"$RF" lib.rs > out 2> err; rc=$?
echo "exit status $rc; stdout $(wc -c < out) bytes; stderr $(wc -c < err) bytes"
if [ $rc -eq 1 ] && [ ! -s err ] && [ ! -s out ]; then
  echo "exit status 1 without any diagnostic: C05 (a diagnostic is printed) VIOLATED"; exit 1
fi
echo "C05 holds"; exit 0
