#!/bin/bash
# Adjacent to C15 (exit status / per-file report, path vs stdin): `rustfmt --check` exits 1 for an
# unformatted file named by path, but 0 when the same source arrives on stdin, although it
# prints the same diff.  Same for a check error (#[rustfmt::foo], has_check_errors).
# usage: demo2.sh <dir with rustfmt binary>;  exit 1 = discrepancy shown, 0 = none
BIN=${1:?dir with built binaries}
BIN=$(cd "$BIN" && pwd)
[ -n "$LD_LIBRARY_PATH" ] || export LD_LIBRARY_PATH=$(cd "$BIN/../.." 2>/dev/null && rustc --print sysroot 2>/dev/null)/lib
T=$(mktemp -d); trap 'rm -rf "$T"' EXIT
export HOME=$T/home XDG_CONFIG_HOME=$T/home/.config; mkdir -p "$HOME"
mkdir "$T/p"; cd "$T/p"
printf 'fn  main( ) { let x=1 ; }\n' > a.rs
"$BIN/rustfmt" --check --color never a.rs > out_path.txt 2>&1;  rc_path=$?
"$BIN/rustfmt" --check --color never < a.rs > out_stdin.txt 2>&1; rc_stdin=$?
sed -i "s#$PWD/a.rs#<stdin>#" out_path.txt
echo "path : rc=$rc_path"; echo "stdin: rc=$rc_stdin"
if cmp -s out_path.txt out_stdin.txt; then echo "(the printed diff is the same)"; fi
if [ "$rc_path" != "$rc_stdin" ]; then echo "DISCREPANCY: --check status differs between path and stdin"; exit 1; fi
echo "no discrepancy"; exit 0
