#!/bin/bash
# Side note (sibling of F33, config application): an emit mode given as `--config emit_mode=json`
# is honoured for a path but silently replaced by Stdout for standard input.
BIN=${1:?dir with built binaries}
BIN=$(cd "$BIN" && pwd)
[ -n "$LD_LIBRARY_PATH" ] || export LD_LIBRARY_PATH=$(cd "$BIN/../.." 2>/dev/null && rustc --print sysroot 2>/dev/null)/lib
T=$(mktemp -d); trap 'rm -rf "$T"' EXIT
export HOME=$T/home XDG_CONFIG_HOME=$T/home/.config; mkdir -p "$HOME"
mkdir "$T/p"; cd "$T/p"
printf 'fn  main( ) { let x=1 ; }\n' > a.rs
p=$("$BIN/rustfmt" --config emit_mode=json a.rs 2>&1)
s=$("$BIN/rustfmt" --config emit_mode=json < a.rs 2>&1)
e=$("$BIN/rustfmt" --emit json < a.rs 2>&1)
echo "path,  --config emit_mode=json: ${p:0:60}..."
echo "stdin, --config emit_mode=json: ${s:0:60}..."
echo "stdin, --emit json            : ${e:0:60}..."
case "$s" in "["*) echo "stdin honours it"; exit 0;; *) echo "DISCREPANCY: stdin ignores --config emit_mode"; exit 1;; esac
