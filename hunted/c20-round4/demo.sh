#!/bin/bash
# C20 demo 1: a module file that is a symbolic link to its own `<stem>.bk` sibling.
# `rustfmt --backup` renames the link onto the file it points to: the only copy of the
# original is replaced by a link to itself, exit status 0, nothing printed.
# usage: demo.sh <dir with the built binaries>; exit 1 = property violated, 0 = holds
BIN=${1:?usage: demo.sh <bin dir>}
if [ -z "$LD_LIBRARY_PATH" ]; then
  sysroot=$(cd "$(dirname "$0")/.." 2>/dev/null && rustc --print sysroot 2>/dev/null)
  [ -n "$sysroot" ] && export LD_LIBRARY_PATH="$sysroot/lib"
fi
T=$(mktemp -d) || exit 2
trap 'rm -rf "$T"' EXIT
cd "$T" || exit 2

mkdir src
printf 'mod gen;\n' > src/lib.rs
# the real text lives in gen.bk (say, the user went back to the backup of an earlier
# `rustfmt --backup` run with `ln -sf gen.bk gen.rs`); gen.rs is a link to it
printf 'pub fn  original( ){}\n' > src/gen.bk
ln -s gen.bk src/gen.rs
cp src/gen.bk original.txt

"$BIN/rustfmt" --backup src/lib.rs
status=$?
echo "rustfmt --backup src/lib.rs: exit status $status"
ls -l src | sed 's/^/    /'

found=no
for f in src/gen.rs src/gen.bk; do
  if [ -e "$f" ] && cmp -s "$f" original.txt; then found=$f; fi
done
if [ "$status" -eq 0 ] && [ "$found" = no ]; then
  echo "VIOLATION: the run succeeded, but neither src/gen.rs nor src/gen.bk holds the original:"
  printf '    src/gen.rs: '; cat src/gen.rs
  printf '    src/gen.bk: '; if [ -L src/gen.bk ]; then echo "symbolic link -> $(readlink src/gen.bk) (points to itself)"; else cat src/gen.bk; fi
  printf '    files that still hold the original anywhere under %s: ' "$T"
  grep -rl 'fn  original' src || echo none
  exit 1
fi
echo "original still available in $found"
exit 0
