#!/bin/bash
# C20 demo 2 (strict reading; weaker than demo 1): a module file l.rs that is a symbolic link
# to another module file m.rs of the same crate. After a successful `rustfmt --backup`
# l.rs holds the formatted text and its sibling l.bk (the moved link, -> m.rs) ALSO reads the
# formatted text, because m.rs was rewritten as well: neither l.rs nor l.bk gives the original
# back; it survives only in m.bk, the backup of a different file. A crash between the two
# renames of m.rs leaves l.bk dangling.
# usage: demo2.sh <dir with the built binaries>; exit 1 = clause violated, 0 = holds
BIN=${1:?usage: demo2.sh <bin dir>}
if [ -z "$LD_LIBRARY_PATH" ]; then
  sysroot=$(cd "$(dirname "$0")/.." 2>/dev/null && rustc --print sysroot 2>/dev/null)
  [ -n "$sysroot" ] && export LD_LIBRARY_PATH="$sysroot/lib"
fi
T=$(mktemp -d) || exit 2
trap 'rm -rf "$T"' EXIT
cd "$T" || exit 2

mkdir src
printf 'mod l;\nmod m;\n' > src/lib.rs
printf 'pub fn  original( ){}\n' > src/m.rs
ln -s m.rs src/l.rs
cp src/m.rs original.txt

"$BIN/rustfmt" --backup src/lib.rs
status=$?
echo "rustfmt --backup src/lib.rs: exit status $status"
ls -l src | sed 's/^/    /'
for f in l.rs l.bk m.rs m.bk; do printf '    %s reads: ' $f; cat src/$f 2>&1; done

if [ "$status" -eq 0 ] && ! cmp -s src/l.bk original.txt && ! cmp -s src/l.rs original.txt; then
  echo "VIOLATION (post-success clause for src/l.rs): l.rs was rewritten, its .bk does not hold the original"
  exit 1
fi
exit 0
