#!/bin/bash
# experiments 8, 10, 11: file size limit, leftovers, closed stdout (inside the worktree only)
B=/tmp/wt/c20w/target/debug
T=$(mktemp -d /tmp/wt/c20w/exp.XXXX)
cd "$T" || exit 2
echo "== 8: ulimit -f, SIGXFSZ ignored"
mkdir e8
seq 1 3000 | sed 's/.*/fn  f&( ){}/' > e8/big.rs
cp e8/big.rs big.orig
printf 'fn  small( ){}\n' > e8/a.rs
( trap '' XFSZ; ulimit -f 8; "$B/rustfmt" --backup e8/a.rs e8/big.rs e8/a.rs; echo exit=$? )
ls -l e8 | awk '{print $5, $9}'
cmp e8/big.rs big.orig && echo big.rs-intact
echo "== 8b: default SIGXFSZ"
( ulimit -f 8; "$B/rustfmt" --backup e8/big.rs; echo exit=$? )
cmp e8/big.rs big.orig && echo big.rs-intact
ls -l e8 | awk '{print $5, $9}'
echo "== 10: rerun over the leftovers"
"$B/rustfmt" --backup e8/big.rs; echo exit=$?
cmp e8/big.bk big.orig && echo bk-is-orig
ls -l e8 | awk '{print $5, $9}'
echo "== 11: closed stdout with -v"
mkdir e11
printf 'fn  a( ){}\n' > e11/a.rs
printf 'fn  b( ){}\n' > e11/b.rs
"$B/rustfmt" -v --backup e11/a.rs e11/b.rs >&- 2>/dev/null; echo exit=$?
ls e11; cat e11/a.rs e11/b.rs
