#!/bin/bash
# experiment 9: permissions, as an unprivileged user (inside the worktree only)
B=/tmp/wt/c20w/target/debug
T=$(mktemp -d /tmp/wt/c20w/exp.XXXX)
chmod 755 "$T"
cd "$T" || exit 2
U="setpriv --bounding-set=-dac_override,-dac_read_search,-fowner --inh-caps=-dac_override,-dac_read_search,-fowner"
$U true || { echo "setpriv not usable"; exit 0; }
run() { $U env LD_LIBRARY_PATH="$LD_LIBRARY_PATH" "$B/rustfmt" "$@"; }
echo "== 9a: read-only directory"
mkdir d1; printf 'fn  a( ){}\n' > d1/a.rs; true d1; chmod 555 d1
run --backup d1/a.rs; echo exit=$?; ls d1; cat d1/a.rs
echo "== 9b: sticky directory, file owned by someone else (root), dir writable"
mkdir d2; printf 'fn  a( ){}\n' > d2/a.rs; chmod 1777 d2; chmod 644 d2/a.rs
run --backup d2/a.rs; echo exit=$?; ls -l d2 | awk '{print $3, $5, $9}'; cat d2/a.rs
echo "== 9c: writable dir, stale a.bk not writable and owned by root, sticky"
mkdir d3; printf 'fn  a( ){}\n' > d3/a.rs; printf 'old backup\n' > d3/a.bk; chown 65534 d3/a.bk; chmod 1777 d3
run --backup d3/a.rs; echo exit=$?; ls -l d3 | awk '{print $3, $5, $9}'; cat d3/a.rs d3/a.bk
echo "== 9d: stale read-only a.tmp owned by the user (mode 444)"
mkdir d4; printf 'fn  a( ){}\n' > d4/a.rs; printf 'stale\n' > d4/a.tmp; true d4; chmod 444 d4/a.tmp
run --backup d4/a.rs; echo exit=$?; ls -l d4 | awk '{print $1, $5, $9}'; cat d4/a.rs
echo "== 9e: unreadable second module; first is rewritten, with backup"
mkdir d5; printf 'mod a;\nmod b;\n' > d5/lib.rs; printf 'fn  a( ){}\n' > d5/a.rs; printf 'fn  b( ){}\n' > d5/b.rs; true d5; chmod 000 d5/b.rs
run --backup d5/lib.rs; echo exit=$?; ls d5; cat d5/a.rs
echo "== 9f: file mode 0600/0755 of the original: what the new file gets (not bytes; for the record)"
mkdir d6; printf 'fn  a( ){}\n' > d6/a.rs; true d6; chmod 750 d6/a.rs
run --backup d6/a.rs; ls -l d6 | awk '{print $1, $9}'
