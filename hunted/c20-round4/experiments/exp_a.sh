#!/bin/bash
# experiments 6, 7: spellings and shared modules (run inside the worktree only)
B=/tmp/wt/c20w/target/debug
T=$(mktemp -d /tmp/wt/c20w/exp.XXXX)
cd "$T" || exit 2
show() {
  for f in "$@"; do
    printf '   %s: ' "$f"
    [ -L "$f" ] && printf '(link->%s) ' "$(readlink "$f")"
    if [ -e "$f" ]; then head -c 70 "$f" | tr '\r\n' '^|'; else printf MISSING; fi
    echo
  done
}
echo "== 6: two spellings in one crate, newline_style Windows and Auto"
for ns in Windows Auto; do
  rm -rf e6; mkdir -p e6/sub
  printf 'mod a;\n#[path = "sub/../a.rs"]\nmod a2;\n' > e6/lib.rs
  printf 'fn  orig_a( ){}\n' > e6/a.rs
  "$B/rustfmt" --backup --config newline_style=$ns e6/lib.rs; echo "$ns exit=$?"
  show e6/a.rs e6/a.bk; ls e6
done
echo "== 7: module shared by two inputs and named itself twice"
mkdir e7
printf 'mod s;\n' > e7/lib.rs
printf 'mod s;\nfn main() {}\n' > e7/main.rs
printf 'fn  orig_s( ){}\n' > e7/s.rs
"$B/rustfmt" --backup e7/s.rs e7/lib.rs e7/main.rs e7/./s.rs; echo exit=$?
show e7/s.rs e7/s.bk; ls e7
echo "== 12: names at NAME_MAX"
mkdir e12
n=$(printf 'x%.0s' $(seq 1 252))
printf 'fn  a( ){}\n' > e12/$n.rs
"$B/rustfmt" --backup e12/$n.rs 2>&1 | cut -c1-40; echo "exit=${PIPESTATUS[0]}"
ls e12 | cut -c1-3,250-
head -c 20 e12/$n.rs
