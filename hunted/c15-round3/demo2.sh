#!/bin/bash
# Secondary, weaker observation (probably judged a debugging knob, see notes.md):
# the bytes on standard output depend on the environment variable RUSTFMT_LOG, because the
# tracing subscriber writes to stdout, the same stream as the formatted text / the JSON report.
# usage: demo2.sh <bindir>    exit 1 = stdout differs with the environment, 0 = same
BIN=${1:?usage: demo2.sh <bindir>}
BIN=$(cd "$BIN" && pwd)
RUSTFMT=$BIN/rustfmt
if [ -z "$LD_LIBRARY_PATH" ]; then
  for d in "$HOME"/.rustup/toolchains/*/lib; do LD_LIBRARY_PATH=${LD_LIBRARY_PATH:+$LD_LIBRARY_PATH:}$d; done
  export LD_LIBRARY_PATH
fi
T=$(mktemp -d) || exit 2
trap 'rm -rf "$T"' EXIT
cd "$T" || exit 2
printf 'fn  main( ){}\n' > a.rs
env -u RUSTFMT_LOG "$RUSTFMT" < a.rs > plain.out 2>/dev/null
RUSTFMT_LOG=debug  "$RUSTFMT" < a.rs > logged.out 2>/dev/null
RUSTFMT_LOG=debug  "$RUSTFMT" --emit json a.rs > logged.json 2>/dev/null
echo "--- stdout without RUSTFMT_LOG:"; cat plain.out
echo "--- stdout with RUSTFMT_LOG=debug ($(wc -l < logged.out) lines; first 3):"; head -3 logged.out | cut -c1-160
python3 -c 'import json,sys; json.load(open("logged.json"))' 2>/dev/null && echo "json report still parses" || echo "--- --emit json with RUSTFMT_LOG=debug is no longer JSON"
if cmp -s plain.out logged.out; then echo "same"; exit 0; fi
echo "stdout depends on RUSTFMT_LOG"
exit 1
