#!/bin/bash
# C15 violation: the formatted text of a macro_rules! definition changes from process to
# process (HashMap iteration order of the metavariable substitutions in src/macros.rs).
# usage: demo.sh <dir holding the built binaries>     exit 1 = property violated, 0 = holds
BIN=${1:?usage: demo.sh <bindir>}
BIN=$(cd "$BIN" && pwd)
RUSTFMT=$BIN/rustfmt
if [ -z "$LD_LIBRARY_PATH" ]; then
  for d in "$HOME"/.rustup/toolchains/*/lib; do LD_LIBRARY_PATH=${LD_LIBRARY_PATH:+$LD_LIBRARY_PATH:}$d; done
  export LD_LIBRARY_PATH
fi
T=$(mktemp -d) || exit 2
trap 'rm -rf "$T"' EXIT
cd "$T" || exit 2

cat > a.rs <<'SRC'
macro_rules! m {
    ($ab:ident, $za:expr) => {
        let xz$ab   =   $za;
    };
}
SRC

RUNS=60
: > outs.txt
for i in $(seq 1 $RUNS); do
  # same bytes, same (default) configuration, same cwd, same environment; one process per run
  "$RUSTFMT" --color never < a.rs > "stdin.$i" 2>/dev/null;                 echo "stdin rc=$? $(md5sum < stdin.$i)" >> outs.txt
  "$RUSTFMT" --color never --emit stdout --quiet a.rs > "path.$i" 2>/dev/null; echo "path  rc=$? $(md5sum < path.$i)"  >> outs.txt
done
echo "distinct results of $RUNS identical runs each (stdin / path):"
sort outs.txt | uniq -c

n=$(cut -d' ' -f3- outs.txt | sort -u | wc -l)
if [ "$n" -gt 1 ]; then
  echo
  echo "line 3 of the output, per distinct result:"
  for f in stdin.* path.*; do sed -n 3p "$f"; done | sort | uniq -c
  # the same happens with --emit files: the file on disk ends up with one text or the other
  cp a.rs b.rs; seen=""
  for i in $(seq 1 40); do cp a.rs b.rs; "$RUSTFMT" b.rs 2>/dev/null; seen="$seen$(md5sum < b.rs)\n"; done
  echo "distinct file contents after 'rustfmt b.rs' (40 fresh copies): $(printf "$seen" | sort -u | wc -l)"
  # and the exit status of --check on one and the same (correctly formatted) file flips
  printf 'macro_rules! m {\n    ($ab:ident, $za:expr) => {\n        let xz$ab = $za;\n    };\n}\n' > c.rs
  st=""
  for i in $(seq 1 40); do "$RUSTFMT" --color never --check c.rs >/dev/null 2>&1; st="$st $?"; done
  echo "exit statuses of 40 x 'rustfmt --check c.rs':$st"
  echo "VIOLATION: output is not a function of source and configuration"
  exit 1
fi
echo "all runs agree"
exit 0
