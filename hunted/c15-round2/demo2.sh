#!/bin/bash
# C15 violation: a panic that rustfmt catches and survives (exit status 0, output produced)
# goes through the rustc ICE hook installed by src/bin/main.rs.  The report it prints
#   - names a file `rustc-ice-<timestamp>-<pid>.txt`: different bytes on every run / process,
#   - is written under the *current working directory* (and the file is really created there),
#   - carries std's "run with `RUST_BACKTRACE=1`" note for the first panic of the process only,
#     so the report of the second file of an invocation is not the report of its single-file run.
# Trigger used here: `use_try_shorthand = true` and a `try!` call whose tokens are not an
# expression (`try!` is an ordinary user-definable macro name in edition 2015):
# src/parse/macros/mod.rs:170 `parser.parse_expr().ok()` drops an un-emitted `Diag`, which panics;
# rewrite_macro (src/macros.rs:169) catches the panic and leaves the call as it is.
#
# usage: demo2.sh DIR_WITH_BINARIES      exit 1 = property violated, 0 = holds
BIN=${1:-/tmp/wt/c15y/target/debug}
if [ -z "$LD_LIBRARY_PATH" ]; then
    export LD_LIBRARY_PATH=$(cd "$BIN/../.." 2>/dev/null && rustc --print sysroot 2>/dev/null)/lib
fi
RUSTFMT=$BIN/rustfmt
T=$(mktemp -d); trap 'rm -rf "$T"' EXIT
cd "$T" || exit 2
export HOME=$T XDG_CONFIG_HOME=$T/.config TERM=dumb
unset RUSTC_ICE
# without RUST_BACKTRACE the ICE hook turns on a full backtrace (ASLR addresses: even more
# run-dependent bytes); keep it off so that only the essential differences show
export RUST_BACKTRACE=0
viol=0
mkdir src cwd1 cwd2
printf 'use_try_shorthand = true\n' > src/rustfmt.toml
printf 'fn a() {\n    let v = try!(=> x);\n}\n' > src/a.rs
printf 'fn b() {\n    let v = try!(=> y);\n}\n' > src/b.rs

# 1. repeated runs of the same single-file command
(cd cwd1 && $RUSTFMT --check ../src/a.rs > ../r1.out 2> ../r1.err); e1=$?
(cd cwd1 && $RUSTFMT --check ../src/a.rs > ../r2.out 2> ../r2.err); e2=$?
echo "== 1. two runs of 'rustfmt --check a.rs' (exit $e1, $e2)"
if ! cmp -s r1.err r2.err; then
    diff r1.err r2.err | head -4
    echo "VIOLATION: stderr differs between two runs of the same command"
    viol=1
fi
echo "   files left in the working directory: $(ls cwd1 | tr '\n' ' ')"
[ -n "$(ls cwd1)" ] && { echo "VIOLATION: rustfmt (exit 0) drops rustc-ice-*.txt files into the working directory"; viol=1; }

# 2. other working directory
(cd cwd2 && $RUSTFMT --check ../src/a.rs > ../r3.out 2> ../r3.err)
norm() { sed -E 's/rustc-ice-[0-9T_:-]+-[0-9]+\.txt/rustc-ice-X.txt/' "$1"; }
echo "== 2. same command from another working directory (ICE file name normalised)"
if ! diff <(norm r1.err) <(norm r3.err); then
    echo "VIOLATION: stderr depends on the working directory"
    viol=1
fi

# 3. multi-file invocation vs. single-file runs
(cd cwd1 && $RUSTFMT --check ../src/a.rs ../src/b.rs > ../m.out 2> ../m.err); em=$?
(cd cwd1 && $RUSTFMT --check ../src/b.rs > ../b.out 2> ../b.err); eb=$?
echo "== 3. 'rustfmt --check a.rs b.rs' (exit $em) vs 'a.rs' (exit $e1) then 'b.rs' (exit $eb); ICE file name normalised"
if ! diff <(norm m.err) <(cat r1.err b.err | sed -E 's/rustc-ice-[0-9T_:-]+-[0-9]+\.txt/rustc-ice-X.txt/'); then
    echo "VIOLATION: the report of b.rs in the two-file run is not the report of its single-file run"
    viol=1
fi
exit $viol
