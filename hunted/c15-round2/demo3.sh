#!/bin/bash
# C15 violation (path vs standard input, emit modes json / checkstyle / --check):
# with `newline_style` set to anything but Auto, the "original text" the emitters compare
# against is re-read from the file system for a path (src/source_file.rs, write_file) but
# taken from rustc's source map for stdin.  The source map has the BOM removed and CRLF turned
# into LF, the file system copy has not: a correctly formatted file that starts with a BOM is
# reported as mis-formatted when given as a path and as clean when piped in; a CRLF file gets
# "Incorrect newline style" from --check as a path and nothing from stdin.
#
# usage: demo3.sh DIR_WITH_BINARIES      exit 1 = property violated, 0 = holds
BIN=${1:-/tmp/wt/c15y/target/debug}
if [ -z "$LD_LIBRARY_PATH" ]; then
    export LD_LIBRARY_PATH=$(cd "$BIN/../.." 2>/dev/null && rustc --print sysroot 2>/dev/null)/lib
fi
RUSTFMT=$BIN/rustfmt
T=$(mktemp -d); trap 'rm -rf "$T"' EXIT
cd "$T" || exit 2
export HOME=$T XDG_CONFIG_HOME=$T/.config TERM=dumb
viol=0
printf 'newline_style = "Unix"\n' > rustfmt.toml
printf '\xef\xbb\xbffn main() {}\n' > bom.rs
printf 'fn main() {\r\n    let x = 1;\r\n}\r\n' > crlf.rs
for mode in json checkstyle; do
    $RUSTFMT --emit $mode bom.rs | sed "s#$T/bom.rs#<stdin>#" > p.out
    $RUSTFMT --emit $mode < bom.rs > s.out
    echo "== --emit $mode, bom.rs as a path / on stdin"
    if ! diff p.out s.out; then echo "VIOLATION: path and stdin report differently"; viol=1; fi
done
for f in bom.rs crlf.rs; do
    $RUSTFMT --check $f | sed "s#$T/$f#<stdin>#" > p.out; pe=${PIPESTATUS[0]}
    $RUSTFMT --check < $f > s.out; se=$?
    echo "== --check $f: path exit $pe, stdin exit $se"
    if ! diff p.out s.out; then echo "VIOLATION: path and stdin report differently"; viol=1; fi
done
exit $viol
