#!/bin/bash
# C15 (environment clause), by design upstream but contradicting the text of the property:
# with the default `color = Auto`, `Color::use_colored_tty()` (src/config/options.rs:216) is true
# without looking at whether stdout is a terminal; OutputWriter::new (src/rustfmt_diff.rs:151) and
# should_print_with_colors (src/bin/main.rs:433) then only ask terminfo.  The bytes of a `--check`
# diff written into a pipe or file therefore depend on the TERM environment variable.
#
# usage: demo5.sh DIR_WITH_BINARIES      exit 1 = property violated, 0 = holds
BIN=${1:-/tmp/wt/c15y/target/debug}
if [ -z "$LD_LIBRARY_PATH" ]; then
    export LD_LIBRARY_PATH=$(cd "$BIN/../.." 2>/dev/null && rustc --print sysroot 2>/dev/null)/lib
fi
RUSTFMT=$BIN/rustfmt
T=$(mktemp -d); trap 'rm -rf "$T"' EXIT
cd "$T" || exit 2
export HOME=$T XDG_CONFIG_HOME=$T/.config
printf 'fn  main( ){}\n' > bad.rs
TERM=xterm $RUSTFMT --check bad.rs > xterm.out 2>&1
TERM=dumb  $RUSTFMT --check bad.rs > dumb.out 2>&1
echo "== rustfmt --check bad.rs > file, TERM=xterm vs TERM=dumb"
if ! cmp xterm.out dumb.out; then
    cat -v xterm.out | head -4
    echo "VIOLATION (if TERM counts as environment rather than configuration): output bytes depend on TERM"
    exit 1
fi
exit 0
