#!/bin/bash
# C15 violation (path vs standard input): `format_generated_files = false` is only honoured for
# paths (src/formatting.rs should_skip_module: `!input_is_stdin && !config.format_generated_files()`,
# and format_project does not even call should_skip_module for stdin).  A file with an `@generated`
# marker is left alone when given as a path and reformatted when piped in.  (The source carries
# a FIXME for this, it is an upstream limitation rather than a slip.)
#
# usage: demo4.sh DIR_WITH_BINARIES      exit 1 = property violated, 0 = holds
BIN=${1:-/tmp/wt/c15y/target/debug}
if [ -z "$LD_LIBRARY_PATH" ]; then
    export LD_LIBRARY_PATH=$(cd "$BIN/../.." 2>/dev/null && rustc --print sysroot 2>/dev/null)/lib
fi
RUSTFMT=$BIN/rustfmt
T=$(mktemp -d); trap 'rm -rf "$T"' EXIT
cd "$T" || exit 2
export HOME=$T XDG_CONFIG_HOME=$T/.config TERM=dumb
viol=0
printf 'format_generated_files = false\n' > rustfmt.toml
printf '// @generated\nfn  main( ){}\n' > gen.rs
for mode in json checkstyle; do
    $RUSTFMT --emit $mode gen.rs | sed "s#$T/gen.rs#<stdin>#" > p.out
    $RUSTFMT --emit $mode < gen.rs > s.out
    echo "== --emit $mode, gen.rs as a path / on stdin"
    if ! diff p.out s.out; then echo "VIOLATION: path and stdin report differently"; viol=1; fi
done
exit $viol
