#!/bin/bash
# C15 violation: the formatted bytes of one and the same source, with one and the same
# configuration, differ between `rustfmt FILE` and `rustfmt < FILE`, and between a file
# formatted on its own and the same file formatted as a module of a crate.
#
# Mechanism: module resolution parses the body of `cfg_if!` / `cfg_match!` with the
# crate's parse session; an error the rustc parser reports and recovers from stays in
# that session's error count, and the next macro call that is formatted has its first
# (successfully parsed) argument rejected because `has_errors()` is true.
#
# usage: demo.sh DIR_WITH_BINARIES      exit 1 = property violated, 0 = holds
BIN=${1:-/tmp/wt/c15y/target/debug}
if [ -z "$LD_LIBRARY_PATH" ]; then
    export LD_LIBRARY_PATH=$(cd "$BIN/../.." 2>/dev/null && rustc --print sysroot 2>/dev/null)/lib
fi
RUSTFMT=$BIN/rustfmt
T=$(mktemp -d); trap 'rm -rf "$T"' EXIT
cd "$T" || exit 2
export HOME=$T XDG_CONFIG_HOME=$T/.config TERM=dumb
viol=0

# ---- case 1: valid Rust (2018+), default configuration (edition 2015) -------------------
cat > one.rs <<'RS'
cfg_if::cfg_if! {
    if #[cfg(unix)] {
        async fn f() {}
    }
}
fn g() {
    assert!(1+1==2);
    assert!(1+1==2);
}
RS
$RUSTFMT -q --emit stdout one.rs > path.out 2> path.err; pe=$?
$RUSTFMT --emit stdout < one.rs > stdin.out 2> stdin.err; se=$?
echo "== case 1: rustfmt --emit stdout one.rs (exit $pe)   vs   rustfmt --emit stdout < one.rs (exit $se)"
if ! diff path.out stdin.out; then
    echo "VIOLATION: same source, same configuration, different bytes for path and stdin"
    viol=1
fi
echo "   stderr bytes: path=$(wc -c < path.err) stdin=$(wc -c < stdin.err)"

# ---- case 2: a recovered syntax error inside cfg_if! (missing `;`) ----------------------
cat > two.rs <<'RS'
cfg_if! {
    if #[cfg(unix)] {
        fn f() { let x = 1 }
    }
}
fn g() {
    foo!(1+2,   3+4);
    foo!(1+2,   3+4);
}
RS
$RUSTFMT -q --emit stdout two.rs > path2.out 2>/dev/null; pe=$?
$RUSTFMT --emit stdout < two.rs > stdin2.out 2>/dev/null; se=$?
echo "== case 2: path (exit $pe) vs stdin (exit $se)"
if ! diff path2.out stdin2.out; then
    echo "VIOLATION: same source, same configuration, different bytes for path and stdin"
    viol=1
fi

# ---- case 3: the bytes of b.rs depend on what was handled before it in the session ------
mkdir tree && cd tree
cat > lib.rs <<'RS'
mod b;
cfg_if::cfg_if! {
    if #[cfg(unix)] {
        async fn f() {}
    }
}
RS
cat > b.rs <<'RS'
fn g() {
    assert!(1+1==2);
}
RS
# b.rs formatted as a module of lib.rs (json: the mismatches reported for b.rs) ...
$RUSTFMT --emit json lib.rs 2>/dev/null | tr '}' '\n' | grep 'b.rs' | grep -c 'assert' > as_child.cnt
# ... and on its own
$RUSTFMT --emit json b.rs 2>/dev/null | tr '}' '\n' | grep 'b.rs' | grep -c 'assert' > alone.cnt
echo "== case 3: mismatches reported for b.rs: as module of lib.rs: $(cat as_child.cnt), on its own: $(cat alone.cnt)"
if ! cmp -s as_child.cnt alone.cnt; then
    echo "VIOLATION: b.rs is reformatted when given on its own, left alone when reached through lib.rs"
    viol=1
fi
exit $viol
