#!/bin/bash
# Oddity (weaker than demo.sh, see notes.md): a module file that is a symbolic
# link to another module file of the same crate.  After a successful run
# link.bk is the moved link; it resolves to target.rs, which has been rewritten,
# so link.rs / link.bk both read as formatted text; the original bytes are only
# in target.bk.
BIN=$(cd "${1:?usage: demo2.sh BIN_DIR}" && pwd)
WT=$(cd "$(dirname "$0")/.." && pwd)
[ -n "$LD_LIBRARY_PATH" ] || export LD_LIBRARY_PATH=$(cd "$WT" && rustc --print sysroot)/lib
T=$(mktemp -d) || exit 2
trap 'cd /; rm -rf "$T"' EXIT
cd "$T" || exit 2
printf 'fn f() {\nlet x = 1;\n}\n' > orig
printf 'mod link;\nmod target;\n' > lib.rs
cp orig target.rs
ln -s target.rs link.rs
"$BIN/rustfmt" --backup lib.rs; echo "rustfmt exit status: $?"
ls -l
if cmp -s link.bk orig || cmp -s link.rs orig; then echo "OK"; exit 0; fi
echo "link.rs and link.bk both read as formatted text; the original of link.rs is only in target.bk"
exit 1
