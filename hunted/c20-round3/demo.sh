#!/bin/bash
# C20 / F30 again through the fall-back of the "already backed up" key:
# when the real path of the working directory is longer than PATH_MAX,
# canonicalize() fails everywhere, the inputs stay relative, and one file
# spelled `shared.rs` (module of lib.rs) and `./shared.rs` (second input)
# gets two different keys -> it is backed up twice -> shared.bk holds the
# intermediate text, the original is gone after a *successful* run.
# usage: demo.sh <dir with the built binaries>
BIN=$(cd "${1:?usage: demo.sh BIN_DIR}" && pwd)
WT=$(cd "$(dirname "$0")/.." && pwd)
[ -n "$LD_LIBRARY_PATH" ] || export LD_LIBRARY_PATH=$(cd "$WT" && rustc --print sysroot)/lib
T=$(mktemp -d) || exit 2
trap 'cd /; rm -rf "$T"' EXIT
: > "$T/rustfmt.toml"                 # an (empty) configuration named with --config-path
printf 'fn f() {\nlet x = 1;\nfoo!(  1,2 );\n}\n' > "$T/orig"
cd "$T" || exit 2
seg=$(printf 'd%.0s' $(seq 1 200))
for i in $(seq 1 25); do mkdir "$seg" && cd "$seg" || exit 2; done   # cwd is > 4096 bytes deep
# lib.rs keeps foo!() calls as they are (crate-level attribute); shared.rs on its own does not:
printf '#![rustfmt::skip::macros(foo)]\nmod shared;\n' > lib.rs
cp "$T/orig" shared.rs
"$BIN/rustfmt" --config-path "$T/rustfmt.toml" --backup lib.rs ./shared.rs
rc=$?
echo "rustfmt exit status: $rc"
echo "--- original";  cat "$T/orig"
echo "--- shared.rs"; cat shared.rs
echo "--- shared.bk"; cat shared.bk
if cmp -s shared.bk "$T/orig" || cmp -s shared.rs "$T/orig"; then
  echo "OK: the original is still there"; exit 0
fi
echo "VIOLATION: neither shared.rs nor shared.bk holds the original (exit status was $rc)"
exit 1
