#!/bin/bash
# C06: on standard input, a source that starts with #![rustfmt::skip] (or any source under
# disable_all_formatting=true) is echoed raw to stdout whatever the emit mode is, so the json /
# checkstyle / --check reports are corrupted by the source text; the same source given as a path
# yields a clean, empty report.
. "$(dirname "$0")/common.sh"

printf '#![rustfmt::skip]\nfn  a(){}\n' > s.rs
for mode in json checkstyle; do
    "$R" --emit $mode s.rs 2>&1 | sed "s#$T/s.rs#NAME#" > file.$mode
    "$R" --emit $mode < s.rs 2>&1 | sed "s#<stdin>#NAME#" > stdin.$mode
    echo "== --emit $mode, path:";  cat file.$mode
    echo "== --emit $mode, stdin:"; cat stdin.$mode
    if grep -q 'fn  a(){}' stdin.$mode; then
        violation "--emit $mode on stdin: the raw source is mixed into the report"
    fi
done
if command -v python3 >/dev/null; then
    python3 -c 'import json,sys; json.load(open("stdin.json"))' 2>/dev/null \
        || violation "--emit json on stdin does not produce valid JSON"
fi
echo "== --check, stdin:"
"$R" --check < s.rs > check.out; echo "(exit $?)"; cat check.out
[ -s check.out ] && violation "--check on stdin prints the whole source although nothing would change"

echo "== disable_all_formatting=true, --emit json, stdin:"
printf 'fn  a(){}\n' | "$R" --emit json --config disable_all_formatting=true > da.out; cat da.out
[ "$(cat da.out)" = "[]" ] || violation "disable_all_formatting: raw source mixed into the json report"

[ $bad = 0 ] && echo "property holds" || echo "property violated"
exit $bad
