#!/bin/bash
# C06: with --backup, files mode destroys a module file whose formatted text is identical to what
# is on disk: the scratch name <stem>.tmp (and the backup name <stem>.bk) of one module collides
# with another source file of the tree.  No error is reported, exit status 0.
. "$(dirname "$0")/common.sh"

printf '#[path = "x.tmp"]\nmod t;\nmod x;\n' > main.rs      # well formatted
printf 'fn  x(){}\n' > x.rs                                 # needs formatting
printf 'fn t() {}\n' > x.tmp                                # well formatted module source
"$R" --emit stdout main.rs > stdout.txt 2>&1
echo "== tree before:"; ls
"$R" --backup main.rs; rc=$?
echo "== rustfmt --backup main.rs: exit $rc; tree after:"; ls
if [ ! -e x.tmp ]; then
    violation "x.tmp was already formatted (files mode must not touch it) but it has been deleted; exit status $rc"
elif [ "$(cat x.tmp)" != "fn t() {}" ]; then
    violation "x.tmp was already formatted but its contents changed"
fi
"$R" --check main.rs >check.out 2>&1; echo "== check after format: exit $? : $(head -3 check.out)"

echo
echo "== same with a module called x.bk: it is overwritten with the *unformatted* x.rs"
rm -f ./*; 
printf '#[path = "x.bk"]\nmod t;\nmod x;\n' > main.rs
printf 'fn  x(){}\n' > x.rs
printf 'fn t() {}\n' > x.bk
"$R" --backup main.rs; rc=$?
echo "exit $rc; x.bk now contains: $(cat x.bk)"
[ "$(cat x.bk)" = "fn t() {}" ] || violation "x.bk was already formatted (files mode must not touch it) but was overwritten"

[ $bad = 0 ] && echo "property holds" || echo "property violated"
exit $bad
