# sourced by the demo scripts: $1 = directory holding the built binaries
BIN=${1:?usage: $0 <dir with rustfmt binary, e.g. /tmp/wt/c06x/target/debug>}
BIN=$(cd "$BIN" && pwd)
R="$BIN/rustfmt"
if ! "$R" --version >/dev/null 2>&1; then
    # the binaries link against the toolchain's librustc_driver
    SYSROOT=$(cd "$BIN/../.." && rustc --print sysroot 2>/dev/null)
    export LD_LIBRARY_PATH="$SYSROOT/lib${LD_LIBRARY_PATH:+:$LD_LIBRARY_PATH}"
fi
"$R" --version >/dev/null || { echo "cannot run $R"; exit 2; }
T=$(mktemp -d)
trap 'rm -rf "$T"' EXIT
cd "$T" || exit 2
bad=0
violation() { echo "VIOLATION: $*"; bad=1; }
