#!/bin/bash
# C06: for an empty source file the diff-based emitters (json, modified-lines, checkstyle, --check
# diff) describe TWO inserted lines ("\n\n"), while files mode / stdout / stdin produce ONE ("\n").
. "$(dirname "$0")/common.sh"

: > e.rs
"$R" --emit json e.rs > json.out
"$R" --config emit_mode=ModifiedLines e.rs > ml.out
"$R" --emit checkstyle e.rs > cs.out
"$R" --check --color never e.rs > check.out
"$R" --emit stdout -q e.rs > stdout.txt
"$R" < e.rs > stdin.txt
[ -s e.rs ] && violation "a read-only emitter modified e.rs"
"$R" e.rs
echo "json           : $(cat json.out)"
echo "modified-lines : $(od -c ml.out | head -1)"
echo "checkstyle     : $(grep -o '<error[^>]*>' cs.out | tr '\n' ' ')"
echo "--check diff   :"; sed 's/^/    |/' check.out
echo "stdout text    : $(od -c stdout.txt | head -1)"
echo "stdin text     : $(od -c stdin.txt | head -1)"
echo "file after plain rustfmt: $(od -c e.rs | head -1)"
cmp -s e.rs stdout.txt || violation "files text != stdout text"
cmp -s e.rs stdin.txt || violation "files text != stdin text"
# text implied by the modified-lines report: header "1 0 N" followed by N lines to insert
n=$(head -1 ml.out | cut -d' ' -f3)
tail -n +2 ml.out | head -n "$n" > implied.txt
if ! cmp -s implied.txt e.rs; then
    violation "modified-lines says insert $n lines ($(wc -c < implied.txt) bytes); files mode wrote $(wc -l < e.rs) line ($(wc -c < e.rs) byte)"
fi
grep -q '"expected":"\\n\\n"' json.out && violation "json says the expected text is \"\\n\\n\" (lines 1-2); files mode wrote \"\\n\""
[ "$(grep -c '^+' check.out)" = 1 ] || violation "--check diff shows $(grep -c '^+' check.out) added lines, files mode adds 1"

[ $bad = 0 ] && echo "property holds" || echo "property violated"
exit $bad
