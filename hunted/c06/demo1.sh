#!/bin/bash
# C06: json / checkstyle / modified-lines reports are blind to carriage returns, so the text they
# imply is not the text that `--emit files` writes / `--emit stdout` prints (and that --check flags).
. "$(dirname "$0")/common.sh"

echo "### A. well formatted CRLF file, newline_style=Unix (e.g. a repo that standardises on LF)"
printf 'fn main() {\r\n    let a = 1;\r\n}\r\n' > crlf.rs
cp crlf.rs crlf.orig
CFG="--config newline_style=Unix"
json=$("$R" --emit json $CFG crlf.rs)
cs=$("$R" --emit checkstyle $CFG crlf.rs)
ml=$("$R" --config emit_mode=ModifiedLines,newline_style=Unix crlf.rs)
"$R" --check $CFG crlf.rs >check.out; check_rc=$?
"$R" --emit stdout -q $CFG crlf.rs >stdout.txt
cmp -s crlf.rs crlf.orig || violation "a read-only emitter modified crlf.rs"
"$R" $CFG crlf.rs; files_rc=$?
echo "json report          : $json"
echo "checkstyle report    : $cs"
echo "modified-lines report: '$ml'"
echo "--check              : exit $check_rc, says: $(cat check.out)"
if cmp -s crlf.rs crlf.orig; then rewritten=no; else rewritten=yes; fi
echo "plain rustfmt        : exit $files_rc, file rewritten: $rewritten; file == stdout text: $(cmp -s crlf.rs stdout.txt && echo yes || echo no)"
if [ "$rewritten" = yes ] && [ "$json" = "[]" ]; then
    violation "json reports no mismatch for crlf.rs, yet files mode rewrote it (and --check exits $check_rc)"
fi
if [ "$rewritten" = yes ] && [ -z "$ml" ]; then
    violation "modified-lines reports no change for crlf.rs, yet files mode rewrote it"
fi
if [ "$rewritten" = yes ] && ! echo "$cs" | grep -q "<error"; then
    violation "checkstyle reports no error for crlf.rs, yet files mode rewrote it"
fi

echo
echo "### B. LF file with one misindented line, newline_style=Windows"
printf 'fn main() {\nlet a = 1;\n}\n' > lf.rs
cp lf.rs lf.orig
"$R" --emit json --config newline_style=Windows lf.rs >json.out
"$R" --config emit_mode=ModifiedLines,newline_style=Windows lf.rs >ml.out
"$R" --emit stdout -q --config newline_style=Windows lf.rs >stdout.txt
"$R" --config newline_style=Windows lf.rs
echo "json report          : $(cat json.out)"
echo "modified-lines report: $(od -c ml.out | head -3)"
echo "file after plain rustfmt:"; od -c lf.rs
cmp -s lf.rs stdout.txt || violation "files text != stdout text"
# apply the modified-lines report (replace line 2) to the original and compare
{ sed -n 1p lf.orig; sed -n 2p ml.out; sed -n 3p lf.orig; } > implied.rs
if ! cmp -s implied.rs lf.rs; then
    violation "text implied by the modified-lines/json report (LF, only line 2 changed) != text written by files mode (CRLF on every line)"
fi

echo
echo "### C. default configuration, unusual input: first line ends in CR CR LF"
printf '// hello\r\r\nfn main() {}\n' > d.rs
cp d.rs d.orig
json=$("$R" --emit json d.rs)
"$R" --check d.rs >check.out; check_rc=$?
"$R" d.rs
if cmp -s d.rs d.orig; then rewritten=no; else rewritten=yes; fi
echo "json report: $json ; --check exit $check_rc ($(cat check.out)) ; plain rustfmt rewrote the file: $rewritten"
if [ "$rewritten" = yes ] && [ "$json" = "[]" ]; then
    violation "default config: json reports no mismatch, files mode rewrote the file"
fi

[ $bad = 0 ] && echo "property holds" || echo "property violated"
exit $bad
