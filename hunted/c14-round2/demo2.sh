#!/bin/bash
# C14, clauses "the same option value has the same effect whether it comes from a file, from
# --config or from the API" and "deprecated aliases map to their successors":
# `version = "Two"` (deprecated alias of style_edition = "2024") and `edition = "2024"` (the last
# fallback for the style edition) select the 2024 style when they come from a rustfmt.toml or from
# `--config`, but have NO effect on the style when they are given through the API route that works
# for every other option, `Config::override_value` (F50 is about the typed setters; this is the
# string route the typed setters were compared against).
# usage: demo2.sh <dir with the built binaries>   (builds one small example against the library)
BIN=${1:-/tmp/wt/c14y/target/debug}
BIN=$(cd "$BIN" && pwd)
ROOT=$(cd "$BIN/../.." && pwd)          # the worktree the binaries were built from
HERE=$(cd "$(dirname "$0")" && pwd)
export LD_LIBRARY_PATH="$(cd "$ROOT" && rustc --print sysroot 2>/dev/null)/lib:$LD_LIBRARY_PATH"
mkdir -p "$ROOT/examples"
cp "$HERE/c14y_api.rs" "$ROOT/examples/c14y_api.rs"
(cd "$ROOT" && cargo build --offline --example c14y_api >/dev/null 2>&1)
rm -f "$ROOT/examples/c14y_api.rs"; rmdir "$ROOT/examples" 2>/dev/null
API="$BIN/examples/c14y_api"
[ -x "$API" ] || { echo "could not build the API probe"; exit 2; }

T=$(mktemp -d /tmp/c14y-demo2.XXXXXX)
trap 'rm -rf "$T"' EXIT
export HOME=$T/home XDG_CONFIG_HOME=$T/home/.config
mkdir -p "$T/home" "$T/f"
cd "$T" || exit 2
# style edition 2015 sorts `a, z, A, Z`; style edition 2024 sorts `A, Z, a, z`
printf 'use b::{a, A, Z, z};\n' > x.rs
cp x.rs f/x.rs

rc=0
for kv in version=Two edition=2024; do
    k=${kv%%=*}; v=${kv#*=}
    printf '%s = "%s"\n' "$k" "$v" > f/rustfmt.toml
    file=$("$BIN/rustfmt" --emit stdout f/x.rs 2>/dev/null | grep '^use')
    cli=$("$BIN/rustfmt" --config "$kv" --emit stdout x.rs 2>/dev/null | grep '^use')
    api=$("$API" x.rs "$k" "$v" 2>/dev/null | grep '^use')
    echo "$kv  from rustfmt.toml : $file"
    echo "$kv  from --config     : $cli"
    echo "$kv  from the API      : $api     ($("$API" x.rs "$k" "$v" 2>&1 >/dev/null | grep '^api:'))"
    if [ "$file" != "$api" ] || [ "$cli" != "$api" ]; then rc=1; fi
done
if [ $rc = 1 ]; then echo "PROPERTY VIOLATED: the same option value formats differently when it comes from the API"; else echo "PROPERTY HOLDS"; fi
exit $rc
