#![feature(rustc_private)]
// Compares `version = "Two"` / `edition = "2024"` given through the API (`override_value`)
// with the same value given through `--config` / a file (via load_config).
extern crate rustc_driver;
use rustfmt_nightly::{Config, Input, Session};

fn fmt(config: Config, src: &str) -> String {
    let mut out = Vec::new();
    {
        let mut s = Session::new(config, Some(&mut out));
        s.format(Input::Text(src.to_owned())).unwrap();
    }
    String::from_utf8(out).unwrap()
}

fn main() {
    let src = std::env::args().nth(1).unwrap();
    let key = std::env::args().nth(2).unwrap();
    let val = std::env::args().nth(3).unwrap();
    let src = std::fs::read_to_string(src).unwrap();
    let mut c = Config::default();
    c.override_value("emit_mode", "Stdout");
    c.override_value(&key, &val);
    eprintln!("api: style_edition = {}", c.style_edition());
    print!("{}", fmt(c, &src));
}
