#!/bin/bash
# C14, first clause + "every order of several input files from different directories in one
# invocation": a file named on the command line that is also an out-of-line module of another
# file named on the command line ends up formatted with the options of the OTHER file's
# rustfmt.toml, or with its own nearest one, depending on the order of the arguments.
# (Arguable: see notes.md.)
# usage: demo3.sh <dir with the built binaries>
BIN=${1:-/tmp/wt/c14y/target/debug}
BIN=$(cd "$BIN" && pwd)
export LD_LIBRARY_PATH="$(cd "$(dirname "$0")/.." && rustc --print sysroot 2>/dev/null)/lib:$LD_LIBRARY_PATH"
T=$(mktemp -d /tmp/c14y-demo3.XXXXXX)
trap 'rm -rf "$T"' EXIT
export HOME=$T/home XDG_CONFIG_HOME=$T/home/.config
mkdir -p "$T/home" "$T/a/sub"
cd "$T" || exit 2
echo 'tab_spaces = 2' > a/rustfmt.toml        # nearest configuration of a/lib.rs
echo 'tab_spaces = 8' > a/sub/rustfmt.toml    # nearest configuration of a/sub/mod.rs
mk() {
    printf 'mod sub;\nfn f() {\nlet x = 1;\n}\n' > a/lib.rs
    printf 'fn g() {\nlet y = 2;\n}\n' > a/sub/mod.rs
}
mk; "$BIN/rustfmt" a/lib.rs a/sub/mod.rs || exit 2; cp a/sub/mod.rs order1.rs
mk; "$BIN/rustfmt" a/sub/mod.rs a/lib.rs || exit 2; cp a/sub/mod.rs order2.rs
echo "--print-config current a/sub/mod.rs: $("$BIN/rustfmt" --print-config current a/sub/mod.rs | grep '^tab_spaces')"
echo "a/sub/mod.rs after 'rustfmt a/lib.rs a/sub/mod.rs':"; sed 's/^/    |/' order1.rs
echo "a/sub/mod.rs after 'rustfmt a/sub/mod.rs a/lib.rs':"; sed 's/^/    |/' order2.rs
if cmp -s order1.rs order2.rs; then echo "PROPERTY HOLDS"; exit 0; fi
echo "PROPERTY VIOLATED: the named file a/sub/mod.rs is not formatted with its nearest rustfmt.toml in the second order"
exit 1
