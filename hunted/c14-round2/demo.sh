#!/bin/bash
# C14, print-config clause: the text printed by `--print-config current` does NOT re-parse to the
# same effective configuration.  The dump is a fixpoint (dumping the dump gives the same text) and
# no width is clamped (max_width > 100, so this is not F11/F12), yet the same source is formatted
# differently under the original rustfmt.toml and under its dump.
# usage: demo.sh <dir with the built binaries>
BIN=${1:-/tmp/wt/c14y/target/debug}
BIN=$(cd "$BIN" && pwd)
export LD_LIBRARY_PATH="$(cd "$(dirname "$0")/.." && rustc --print sysroot 2>/dev/null)/lib:$LD_LIBRARY_PATH"
T=$(mktemp -d /tmp/c14y-demo.XXXXXX)
trap 'rm -rf "$T"' EXIT
export HOME=$T/home XDG_CONFIG_HOME=$T/home/.config
mkdir -p "$T/home" "$T/orig" "$T/dump"
cd "$T" || exit 2

cat > orig/rustfmt.toml <<'TOML'
max_width = 120
format_code_in_doc_comments = true
TOML

cat > orig/x.rs <<'RS'
/// ```
/// fn doc() {
///     foo(aaaaaaaaaaaaaaaaaaaaa, bbbbbbbbbbbbbbbbbbbbb, ccccccccccccccccccccc);
/// }
/// ```
mod m {
    macro_rules! mac {
        () => {
            foo(aaaaaaaaaaaaaaaaaaaaa, bbbbbbbbbbbbbbbbbbbbb, ccccccccccccccccccccc);
        };
    }
}
RS
cp orig/x.rs dump/x.rs

# the dump of the effective configuration of orig/x.rs becomes the configuration of dump/x.rs
"$BIN/rustfmt" --print-config current orig/x.rs > dump/rustfmt.toml 2>/dev/null || exit 2
# sanity: the dump is a fixpoint, so an oracle that compares dumps sees nothing
"$BIN/rustfmt" --print-config current dump/x.rs > dump2.toml 2>/dev/null || exit 2
if cmp -s dump/rustfmt.toml dump2.toml; then echo "dump(dump) == dump  (fixpoint holds)"; else echo "dump is not a fixpoint"; fi
grep -E '^(max_width|use_small_heuristics|fn_call_width) ' dump/rustfmt.toml

"$BIN/rustfmt" orig/x.rs 2>/dev/null || exit 2
"$BIN/rustfmt" dump/x.rs 2>/dev/null || exit 2
if diff -u orig/x.rs dump/x.rs > out.diff; then
    echo "PROPERTY HOLDS: original configuration and its dump format the file identically"
    exit 0
fi
echo "PROPERTY VIOLATED: the same source, formatted with rustfmt.toml (-) and with its --print-config current dump (+):"
cat out.diff
exit 1
