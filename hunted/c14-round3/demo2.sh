#!/bin/sh
# C14 -- an input that is a symbolic link is formatted with the configuration found above the
# link's target, not with the nearest rustfmt.toml at or above the directory it was named in.
# usage: demo2.sh <dir with the built binaries>     exit 1 = property violated, 0 = holds
BIN=${1:?usage: demo2.sh /path/to/target/debug}
BIN=$(cd "$BIN" && pwd)
if [ -z "$LD_LIBRARY_PATH" ]; then
    SYSROOT=$(cd "$BIN/../.." 2>/dev/null && rustc --print sysroot 2>/dev/null)
    [ -n "$SYSROOT" ] && export LD_LIBRARY_PATH="$SYSROOT/lib"
fi
RF="$BIN/rustfmt"
T=$(mktemp -d /tmp/c14z-demo2.XXXXXX) || exit 2
trap 'rm -rf "$T"' EXIT
export HOME="$T/home" XDG_CONFIG_HOME="$T/xdg"; mkdir -p "$HOME" "$XDG_CONFIG_HOME"
mkdir -p "$T/proj/src" "$T/common"
printf 'max_width = 40\n'  > "$T/proj/rustfmt.toml"      # the project's own configuration
printf 'max_width = 200\n' > "$T/common/rustfmt.toml"    # somebody else's
printf 'fn f() { let x = foo(aaaaaaaaaa, bbbbbbbbbbbb, cccccccccccc, ddddddddd); }\n' > "$T/common/shared.rs"
ln -s ../../common/shared.rs "$T/proj/src/shared.rs"     # a shared source linked into the project
cp "$T/common/shared.rs" "$T/proj/src/plain.rs"          # the same text as a regular file

echo "== rustfmt --emit stdout proj/src/plain.rs   (regular file: proj/rustfmt.toml, max_width 40)"
(cd "$T" && "$RF" --emit stdout proj/src/plain.rs) | sed 1,2d > "$T/plain.out"; cat "$T/plain.out"
echo "== rustfmt --emit stdout proj/src/shared.rs  (symbolic link in the same directory)"
(cd "$T" && "$RF" --emit stdout proj/src/shared.rs) | sed 1,2d > "$T/link.out"; cat "$T/link.out"
echo "== --print-config current proj/src/shared.rs"
(cd "$T" && "$RF" --print-config current proj/src/shared.rs) | grep '^max_width'

if cmp -s "$T/plain.out" "$T/link.out"; then
    echo "HOLDS: both files of proj/src are formatted with proj/rustfmt.toml"; exit 0
fi
echo "VIOLATED: proj/src/shared.rs was formatted with common/rustfmt.toml (max_width = 200),"
echo "          not with the nearest configuration above proj/src (max_width = 40)"
exit 1
