#!/bin/sh
# C14 -- a HOME (or XDG_CONFIG_HOME) that is not a directory aborts the configuration lookup:
# the user-config rustfmt.toml that is next in the documented precedence is never consulted
# (and a file with no configuration at all is not formatted with the defaults either).
# usage: demo.sh <dir with the built binaries>      exit 1 = property violated, 0 = holds
BIN=${1:?usage: demo.sh /path/to/target/debug}
BIN=$(cd "$BIN" && pwd)
if [ -z "$LD_LIBRARY_PATH" ]; then
    SYSROOT=$(cd "$BIN/../.." 2>/dev/null && rustc --print sysroot 2>/dev/null)
    [ -n "$SYSROOT" ] && export LD_LIBRARY_PATH="$SYSROOT/lib"
fi
RF="$BIN/rustfmt"
T=$(mktemp -d /tmp/c14z-demo.XXXXXX) || exit 2
trap 'rm -rf "$T"' EXIT
mkdir -p "$T/proj/src" "$T/xdg/rustfmt" "$T/emptyhome"
# no rustfmt.toml at or above proj/src (the temp dir lives in /tmp); the only configuration
# is the one in the user-config directory
printf 'max_width = 40\n' > "$T/xdg/rustfmt/rustfmt.toml"
printf 'fn main() { let x = foo(aaaaaaaaaa, bbbbbbbbbbbb, cccccccccccc, ddddddddd); }\n' > "$T/proj/src/x.rs"
cp "$T/proj/src/x.rs" "$T/orig.rs"

echo "== reference: HOME is an (empty) directory, the user-config file is found"
cp "$T/orig.rs" "$T/proj/src/x.rs"
HOME="$T/emptyhome" XDG_CONFIG_HOME="$T/xdg" "$RF" "$T/proj/src/x.rs"; echo "exit status $?"
cp "$T/proj/src/x.rs" "$T/expected.rs"
HOME="$T/emptyhome" XDG_CONFIG_HOME="$T/xdg" "$RF" --print-config current "$T/proj/src/x.rs" | grep '^max_width'

echo "== same layout, HOME=/dev/null (no configuration can possibly live there)"
cp "$T/orig.rs" "$T/proj/src/x.rs"
HOME=/dev/null XDG_CONFIG_HOME="$T/xdg" "$RF" "$T/proj/src/x.rs"; rc=$?; echo "exit status $rc"
HOME=/dev/null XDG_CONFIG_HOME="$T/xdg" "$RF" --print-config current "$T/proj/src/x.rs" | grep '^max_width'

echo "== no configuration anywhere, XDG_CONFIG_HOME=/dev/null: the defaults should apply"
cp "$T/orig.rs" "$T/proj/src/y.rs"
HOME="$T/emptyhome" XDG_CONFIG_HOME=/dev/null "$RF" "$T/proj/src/y.rs"; rc2=$?; echo "exit status $rc2"

if cmp -s "$T/proj/src/x.rs" "$T/expected.rs" && [ $rc -eq 0 ] && [ $rc2 -eq 0 ]; then
    echo "HOLDS: the file was formatted with the user-config options"
    exit 0
fi
echo "VIOLATED: with HOME=/dev/null the file is not formatted with the options of"
echo "          \$XDG_CONFIG_HOME/rustfmt/rustfmt.toml (max_width = 40): it is not formatted at all"
cmp -s "$T/proj/src/x.rs" "$T/orig.rs" && echo "          (x.rs was left untouched, exit status $rc)"
exit 1
