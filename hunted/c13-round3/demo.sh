#!/bin/sh
# C13 demo 1: `#[cfg_attr(.., path = "win.rs")]` in front of a literal `#[path = "unix.rs"]`:
# win.rs is the module's file when the predicate holds (rustc takes the first `path`), but rustfmt
# returns as soon as it sees the literal #[path] and never looks at the cfg_attr candidates.
. "$(dirname "$0")/common.sh"
cat > main.rs <<'EOS'
#[cfg_attr(alt, path = "win.rs")]
#[path = "unix.rs"]
mod sys;

// the same thing spelled with two cfg_attr arms is handled:
#[cfg_attr(alt, path = "win2.rs")]
#[cfg_attr(not(alt), path = "unix2.rs")]
mod sys2;

fn main() {}
EOS
for f in win unix win2 unix2; do echo "$UNFMT" > $f.rs; done
"$BIN/rustfmt" main.rs; rc=$?
echo "rustfmt exit status: $rc"
for f in win unix win2 unix2; do printf '%-9s: %s\n' $f.rs "$(cat $f.rs)"; done
if command -v rustc >/dev/null 2>&1; then
    rustc --edition 2021 --cfg alt --emit=dep-info -o with_alt.d main.rs 2>/dev/null && echo "rustc --cfg alt reads: $(head -1 with_alt.d)"
    rustc --edition 2021 --emit=dep-info -o without.d main.rs 2>/dev/null && echo "rustc (no cfg) reads:  $(head -1 without.d)"
fi
if [ $rc -eq 0 ] && is_formatted unix.rs && is_untouched win.rs; then
    echo "VIOLATION: win.rs is a module file of the crate (cfg alt) but was silently left unformatted, exit 0"
    exit 1
fi
echo "property holds"
exit 0
