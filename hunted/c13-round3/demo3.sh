#!/bin/sh
# C13 demo 3: any `path = "..."` key/value anywhere in any attribute of a `mod x;` is taken for a
# cfg_attr(path) candidate: files nobody declares as a module are parsed, formatted and rewritten.
. "$(dirname "$0")/common.sh"
cat > main.rs <<'EOS'
#[cfg(path = "decoy1.rs")]
mod m;
#[cfg_attr(docsrs, doc(cfg(path = "decoy2.rs")))]
mod k;
#[cfg_attr(path = "decoy3.rs", allow(unused))]
mod j;
fn main() {}
EOS
for f in m k j decoy1 decoy2 decoy3; do echo "$UNFMT" > $f.rs; done
"$BIN/rustfmt" main.rs; rc=$?
echo "rustfmt exit status: $rc"
for f in m k j decoy1 decoy2 decoy3; do printf '%-10s: %s\n' $f.rs "$(cat $f.rs)"; done
if command -v rustc >/dev/null 2>&1; then
    rustc --edition 2021 --cfg 'path="decoy1.rs"' --cfg docsrs --emit=dep-info -o d.d main.rs 2>/dev/null && echo "rustc (all cfgs on) reads: $(head -1 d.d)"
fi
if is_formatted decoy1.rs || is_formatted decoy2.rs || is_formatted decoy3.rs; then
    echo "VIOLATION: a decoy file that no module declares was rewritten"
    exit 1
fi
echo "property holds"
exit 0
