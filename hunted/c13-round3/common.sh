# sourced by the demos: $1 = directory with the built binaries
BIN=${1:?usage: $0 <dir with rustfmt binary>}
BIN=$(cd "$BIN" && pwd)
if [ -z "${LD_LIBRARY_PATH:-}" ]; then
    SYSROOT=$(cd "$BIN/../.." 2>/dev/null && rustc --print sysroot 2>/dev/null)
    [ -n "$SYSROOT" ] && export LD_LIBRARY_PATH="$SYSROOT/lib"
fi
T=$(mktemp -d /tmp/c13z-demo.XXXXXX)
trap 'rm -rf "$T"' EXIT
cd "$T"
UNFMT='pub fn  f( ){ }'
FMT='pub fn f() {}'
is_formatted()   { [ "$(cat "$1")" = "$FMT" ]; }
is_untouched()   { [ "$(cat "$1")" = "$UNFMT" ]; }
