#!/bin/sh
# C13 demo 4: `#[path = ".."] mod m;` inside a block (fn body, `const _: () = { .. };`) is a module
# of the crate for rustc; rustfmt only walks item lists of modules and never sees it.
. "$(dirname "$0")/common.sh"
cat > main.rs <<'EOS'
fn main() {
    #[path = "inner.rs"]
    mod inner;
    inner::f();
}
const _: () = {
    #[path = "k.rs"]
    mod k;
};
EOS
echo "$UNFMT" > inner.rs; echo "$UNFMT" > k.rs
"$BIN/rustfmt" main.rs; rc=$?
echo "rustfmt exit status: $rc"
echo "inner.rs: $(cat inner.rs)"; echo "k.rs: $(cat k.rs)"
if command -v rustc >/dev/null 2>&1; then
    rustc --edition 2021 --emit=dep-info -o d.d main.rs 2>/dev/null && echo "rustc reads: $(head -1 d.d)"
fi
if [ $rc -eq 0 ] && is_untouched inner.rs && is_untouched k.rs; then
    echo "VIOLATION: inner.rs and k.rs are reached through #[path] mod declarations but were not formatted, exit 0"
    exit 1
fi
echo "property holds"
exit 0
