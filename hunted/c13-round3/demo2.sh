#!/bin/sh
# C13 demo 2: one item the parser complains about (and recovers from) inside an arm of a cfg_if!
# makes rustfmt forget *all* module declarations of that cfg_if!: it prints the diagnostic, formats the
# root, leaves a.rs and b.rs alone and exits 0. The crate is valid: the arm is cfg'd out, rustc never
# parses its tokens (edition 2015 is what `rustfmt file.rs` uses by default).
. "$(dirname "$0")/common.sh"
cat > main.rs <<'EOS'
macro_rules! cfg_if {
    (if #[cfg($m:meta)] { $($t:tt)* } else { $($e:tt)* }) => {
        #[cfg($m)] identity! { $($t)* }
        #[cfg(not($m))] identity! { $($e)* }
    };
}
macro_rules! identity { ($($t:tt)*) => { $($t)* }; }

cfg_if! {
    if #[cfg(feature = "modern")] {
        mod a;
        pub async fn x() {}
    } else {
        mod b;
    }
}
fn  main( ) { }
EOS
echo "$UNFMT" > a.rs; echo "$UNFMT" > b.rs
if command -v rustc >/dev/null 2>&1; then
    rustc --edition 2015 --emit=metadata -o /dev/null main.rs >/dev/null 2>&1 && echo "rustc --edition 2015 accepts the crate"
fi
"$BIN/rustfmt" --edition 2015 main.rs 2>stderr.txt; rc=$?
echo "rustfmt exit status: $rc; stderr: $(head -1 stderr.txt)"
echo "a.rs: $(cat a.rs)"; echo "b.rs: $(cat b.rs)"; echo "main.rs last line: $(tail -1 main.rs)"
if [ $rc -eq 0 ] && is_untouched a.rs && is_untouched b.rs && [ "$(tail -1 main.rs)" = "fn main() {}" ]; then
    echo "VIOLATION: a.rs and b.rs (declared in the cfg_if! body) were left unformatted, root rewritten, exit 0"
    exit 1
fi
echo "property holds"
exit 0
