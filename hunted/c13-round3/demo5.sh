#!/bin/sh
# C13 demo 5: a skip marker spelled as one of several attributes of a cfg_attr
# (`#[cfg_attr(rustfmt, rustfmt::skip, allow(unused))]`, legal since Rust 1.33) is not a skip
# marker for rustfmt (utils.rs is_skip: `l.len() == 2`): the "skipped" module file is rewritten.
. "$(dirname "$0")/common.sh"
cat > main.rs <<'EOS'
#[cfg_attr(rustfmt, rustfmt::skip, allow(unused))]
mod a;
#[cfg_attr(rustfmt, rustfmt::skip)]
mod c;
mod d;
fn main() {}
EOS
echo "$UNFMT" > a.rs; echo "$UNFMT" > c.rs
printf '#![cfg_attr(rustfmt, rustfmt::skip, allow(unused))]\n%s\n' "$UNFMT" > d.rs
"$BIN/rustfmt" main.rs; rc=$?
echo "rustfmt exit status: $rc"
echo "a.rs: $(cat a.rs)"; echo "c.rs: $(cat c.rs)"; echo "d.rs: $(tail -1 d.rs)"
if is_formatted a.rs || [ "$(tail -1 d.rs)" = "$FMT" ]; then
    echo "VIOLATION (spelling of the marker): a module carrying a skip marker was rewritten"
    exit 1
fi
echo "property holds"
exit 0
