#!/bin/bash
# C13 violation (last clause: "an ambiguous or missing module is an error rather than a guess"):
# `mod m;` with BOTH src/m.rs and src/m/mod.rs present is ambiguous (rustc: E0761; rustfmt: "file
# for module found at both ..." and exit 1).  As soon as the declaration also carries a
# cfg_attr(.., path = "..") arm whose file exists, the ambiguity is swallowed: exit 0, no message,
# the arm's file and the rest of the crate are rewritten, and neither m.rs nor m/mod.rs (one of which
# IS the module in the default configuration) is formatted.
#
# usage: demo3.sh <dir with rustfmt binary>     exit 1 = property violated, 0 = holds
BIN=${1:-/tmp/wt/c13y/target/debug}
RUSTFMT=$BIN/rustfmt
SYSROOT=$( (cd "$(dirname "$0")/.." 2>/dev/null && rustc --print sysroot 2>/dev/null) || rustc --print sysroot 2>/dev/null)
[ -n "$SYSROOT" ] && export LD_LIBRARY_PATH=$SYSROOT/lib${LD_LIBRARY_PATH:+:$LD_LIBRARY_PATH}
T=$(mktemp -d /tmp/c13y-demo.XXXXXX)
trap 'rm -rf "$T"' EXIT
export HOME=$T/home XDG_CONFIG_HOME=$T/home/.config; mkdir -p "$HOME"
"$RUSTFMT" --version >/dev/null || { echo "cannot run $RUSTFMT"; exit 2; }

mkdir -p "$T/src/m"; cd "$T"
for f in alt.rs m.rs m/mod.rs other.rs; do printf 'pub fn   f( ) { }\n' > src/$f; done

printf 'mod m;\nmod other;\n' > src/lib.rs
"$RUSTFMT" src/lib.rs 2>err.txt; rc_plain=$?
echo "plain 'mod m;'            -> exit $rc_plain, stderr: $(cat err.txt)"

printf '#[cfg_attr(feature = "alt", path = "alt.rs")]\nmod m;\nmod other;\n' > src/lib.rs
if [ -n "$SYSROOT" ] && [ -x "$SYSROOT/bin/rustc" ]; then
    echo "rustc says: $("$SYSROOT/bin/rustc" --edition 2021 --crate-type lib src/lib.rs --emit=dep-info -o dep.d -Awarnings 2>&1 | head -1)"
fi
"$RUSTFMT" src/lib.rs 2>err.txt; rc=$?
echo "with a cfg_attr(path) arm -> exit $rc, stderr: '$(cat err.txt)'"
for f in alt.rs other.rs m.rs m/mod.rs; do
    if grep -q 'fn   ' src/$f; then echo "  untouched: src/$f"; else echo "  rewritten: src/$f"; fi
done
if [ $rc = 0 ] && [ ! -s err.txt ]; then
    echo "RESULT: property C13 violated (ambiguous module m is not an error; the crate was rewritten around it)"
    exit 1
fi
echo "RESULT: property holds"; exit 0
