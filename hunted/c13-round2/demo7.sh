#!/bin/bash
# C13 violation ("... except files matched by `ignore`"): when the project's rustfmt.toml is a
# symbolic link (a configuration shared between several crates), no entry of its `ignore` list
# matches anything -- neither an anchored one (`src/gen.rs`) nor a bare file name (`gen.rs`) nor a
# directory (`src/gen_dir/`).  The ignored files are formatted and rewritten, exit 0, no warning.
# With a regular file of the same content in the same place they are left alone.
#
# usage: demo7.sh <dir with rustfmt binary>     exit 1 = property violated, 0 = holds
BIN=${1:-/tmp/wt/c13y/target/debug}
RUSTFMT=$BIN/rustfmt
SYSROOT=$( (cd "$(dirname "$0")/.." 2>/dev/null && rustc --print sysroot 2>/dev/null) || rustc --print sysroot 2>/dev/null)
[ -n "$SYSROOT" ] && export LD_LIBRARY_PATH=$SYSROOT/lib${LD_LIBRARY_PATH:+:$LD_LIBRARY_PATH}
T=$(mktemp -d /tmp/c13y-demo.XXXXXX)
trap 'rm -rf "$T"' EXIT
export HOME=$T/home XDG_CONFIG_HOME=$T/home/.config; mkdir -p "$HOME"
"$RUSTFMT" --version >/dev/null || { echo "cannot run $RUSTFMT"; exit 2; }

setup() {
    rm -rf "$T/proj"; mkdir -p "$T/proj/src/gen_dir" "$T/shared"
    printf 'ignore = ["src/gen.rs", "gen2.rs", "src/gen_dir/"]\n' > "$T/shared/rustfmt.toml"
    printf 'mod gen;\nmod gen2;\nmod gen_dir;\nmod plain;\nfn main() {}\n' > "$T/proj/src/main.rs"
    for f in gen.rs gen2.rs gen_dir/mod.rs plain.rs; do printf 'pub fn   f( ) { }\n' > "$T/proj/src/$f"; done
}
check() {   # $1 label
    local bad=0
    for f in gen.rs gen2.rs gen_dir/mod.rs; do
        if ! grep -q 'fn   ' "$T/proj/src/$f"; then echo "[$1] ignored file src/$f was REWRITTEN"; bad=1; fi
    done
    grep -q 'fn   ' "$T/proj/src/plain.rs" && echo "[$1] src/plain.rs not formatted?!"
    return $bad
}
violated=0
setup; cp "$T/shared/rustfmt.toml" "$T/proj/rustfmt.toml"
(cd "$T/proj" && "$RUSTFMT" src/main.rs); echo "[regular file] rustfmt exit status $?"
check "regular file" && echo "[regular file] the three ignored files were left alone"

setup; ln -s ../shared/rustfmt.toml "$T/proj/rustfmt.toml"
(cd "$T/proj" && "$RUSTFMT" src/main.rs); echo "[symlink] rustfmt exit status $?"
check "symlink" || violated=1

if [ $violated = 1 ]; then echo "RESULT: property C13 violated (files matched by ignore are formatted)"; exit 1; fi
echo "RESULT: property holds"; exit 0
