#!/bin/bash
# C13 violation (cfg_if! bodies): modules declared in the body of a cfg_if! that is invoked through
# a path whose FIRST segment is not `cfg_if` -- `::cfg_if::cfg_if! { .. }` (the 2018 way to name an
# extern crate unambiguously) or `crate::cfg_if! { .. }` / `self::cfg_if!` (a re-exported or local
# copy of the macro, as in libc / std / stdarch) -- are silently never formatted, exit 0.
# The same call IS searched when it sits inside an arm of another cfg_if! (there the LAST segment
# is compared: src/parse/macros/cfg_if.rs:87), so the top-level test is simply inconsistent.
#
# usage: demo5.sh <dir with rustfmt binary>     exit 1 = property violated, 0 = holds
BIN=${1:-/tmp/wt/c13y/target/debug}
RUSTFMT=$BIN/rustfmt
SYSROOT=$( (cd "$(dirname "$0")/.." 2>/dev/null && rustc --print sysroot 2>/dev/null) || rustc --print sysroot 2>/dev/null)
[ -n "$SYSROOT" ] && export LD_LIBRARY_PATH=$SYSROOT/lib${LD_LIBRARY_PATH:+:$LD_LIBRARY_PATH}
T=$(mktemp -d /tmp/c13y-demo.XXXXXX)
trap 'rm -rf "$T"' EXIT
export HOME=$T/home XDG_CONFIG_HOME=$T/home/.config; mkdir -p "$HOME"
"$RUSTFMT" --version >/dev/null || { echo "cannot run $RUSTFMT"; exit 2; }

mkdir -p "$T/src"; cd "$T"
cat > src/lib.rs <<'RS'
cfg_if::cfg_if! {
    if #[cfg(unix)] { mod plain_unix; } else { mod plain_other; }
}
::cfg_if::cfg_if! {
    if #[cfg(unix)] { mod rooted_unix; } else { mod rooted_other; }
}
crate::cfg_if! {
    if #[cfg(unix)] { mod local_unix; } else { mod local_other; }
}
cfg_if::cfg_if! {
    if #[cfg(unix)] {
        ::cfg_if::cfg_if! { if #[cfg(target_os = "linux")] { mod nested_rooted; } }
    }
}
RS
for m in plain_unix plain_other rooted_unix rooted_other local_unix local_other nested_rooted; do
    printf 'pub fn   f( ) { }\n' > src/$m.rs
done
"$RUSTFMT" src/lib.rs; echo "rustfmt exit status $?"
violated=0
for m in plain_unix plain_other nested_rooted rooted_unix rooted_other local_unix local_other; do
    if grep -q 'fn   ' src/$m.rs; then echo "VIOLATION: src/$m.rs declared in a cfg_if! body, not formatted"; violated=1
    else echo "formatted: src/$m.rs"; fi
done
if [ $violated = 1 ]; then echo "RESULT: property C13 violated"; exit 1; fi
echo "RESULT: property holds"; exit 0
