#!/bin/bash
# C13 violation: the crate root named on the command line is a symbolic link (a root shared between
# two crates, a generated/checked-out entry point, ...).  The language resolves `mod foo;` relative
# to the directory of the root AS NAMED (rustc, cargo: proj/src/foo.rs).  rustfmt canonicalizes
# every command-line path first (src/bin/main.rs, `p.canonicalize().unwrap_or(p)`), so it resolves
# the modules next to the link's TARGET: it rewrites a file that no module of this crate declares
# (shared/foo.rs) and leaves the crate's real module (proj/src/foo.rs) unformatted, exit 0.
#
# usage: demo6.sh <dir with rustfmt binary>     exit 1 = property violated, 0 = holds
BIN=${1:-/tmp/wt/c13y/target/debug}
RUSTFMT=$BIN/rustfmt
SYSROOT=$( (cd "$(dirname "$0")/.." 2>/dev/null && rustc --print sysroot 2>/dev/null) || rustc --print sysroot 2>/dev/null)
[ -n "$SYSROOT" ] && export LD_LIBRARY_PATH=$SYSROOT/lib${LD_LIBRARY_PATH:+:$LD_LIBRARY_PATH}
T=$(mktemp -d /tmp/c13y-demo.XXXXXX)
trap 'rm -rf "$T"' EXIT
export HOME=$T/home XDG_CONFIG_HOME=$T/home/.config; mkdir -p "$HOME"
"$RUSTFMT" --version >/dev/null || { echo "cannot run $RUSTFMT"; exit 2; }

mkdir -p "$T/proj/src" "$T/shared"
printf 'mod foo;\nfn main() {}\n'      > "$T/shared/main.rs"
printf 'pub fn   decoy( ) { }\n'       > "$T/shared/foo.rs"      # not a module of the crate proj
printf 'pub fn   real( ) { }\n'        > "$T/proj/src/foo.rs"    # the module `foo` of the crate proj
ln -s ../../shared/main.rs "$T/proj/src/main.rs"

cd "$T"
if [ -n "$SYSROOT" ] && [ -x "$SYSROOT/bin/rustc" ]; then
    "$SYSROOT/bin/rustc" --edition 2021 proj/src/main.rs --emit=dep-info -o dep.d -Awarnings \
        && echo "rustc reads:  $(head -1 dep.d | cut -d: -f2-)"
fi
violated=0
for spelling in proj/src/main.rs "$T/proj/src/main.rs"; do
    printf 'pub fn   decoy( ) { }\n' > shared/foo.rs
    printf 'pub fn   real( ) { }\n'  > proj/src/foo.rs
    "$RUSTFMT" "$spelling"; echo "rustfmt $spelling -> exit status $?"
    if ! grep -q 'fn   ' shared/foo.rs; then
        echo "VIOLATION: shared/foo.rs (declared by no module of the crate) was rewritten: $(cat shared/foo.rs)"; violated=1
    fi
    if grep -q 'fn   ' proj/src/foo.rs; then
        echo "VIOLATION: proj/src/foo.rs (module foo of the crate) was not formatted: $(cat proj/src/foo.rs)"; violated=1
    fi
done
if [ $violated = 1 ]; then echo "RESULT: property C13 violated"; exit 1; fi
echo "RESULT: property holds"; exit 0
