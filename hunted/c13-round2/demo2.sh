#!/bin/bash
# C13 violation (placement of a skip marker): the usual platform module
#     #[cfg_attr(unix, path = "unix.rs")] #[cfg_attr(windows, path = "windows.rs")] mod imp;
# (there is no imp.rs, and there need not be one) whose arm files opt out of formatting with an inner
# `#![rustfmt::skip]` / `#![cfg_attr(rustfmt, rustfmt::skip)]`.  A skipped file is supposed to be
# left alone and everything else formatted.  Instead the skipped candidates are forgotten, the
# declaration then looks like a plain `mod imp;`, and the whole crate fails with
# "failed to resolve mod `imp`: .../imp.rs does not exist", exit 1, nothing is formatted.
# Remove the skip marker from one arm file and the same tree formats fine.
#
# usage: demo2.sh <dir with rustfmt binary>     exit 1 = property violated, 0 = holds
BIN=${1:-/tmp/wt/c13y/target/debug}
RUSTFMT=$BIN/rustfmt
SYSROOT=$( (cd "$(dirname "$0")/.." 2>/dev/null && rustc --print sysroot 2>/dev/null) || rustc --print sysroot 2>/dev/null)
[ -n "$SYSROOT" ] && export LD_LIBRARY_PATH=$SYSROOT/lib${LD_LIBRARY_PATH:+:$LD_LIBRARY_PATH}
T=$(mktemp -d /tmp/c13y-demo.XXXXXX)
trap 'rm -rf "$T"' EXIT
export HOME=$T/home XDG_CONFIG_HOME=$T/home/.config; mkdir -p "$HOME"
"$RUSTFMT" --version >/dev/null || { echo "cannot run $RUSTFMT"; exit 2; }

mkdir -p "$T/src"; cd "$T"
printf '#[cfg_attr(unix, path = "unix.rs")]\n#[cfg_attr(windows, path = "windows.rs")]\nmod imp;\nmod other;\npub fn   root( ) { }\n' > src/lib.rs
printf '#![cfg_attr(rustfmt, rustfmt::skip)]\npub fn   hand_aligned( ) { }\n' > src/unix.rs
printf '#![cfg_attr(rustfmt, rustfmt::skip)]\npub fn   hand_aligned( ) { }\n' > src/windows.rs
printf 'pub fn   f( ) { }\n' > src/other.rs
if [ -n "$SYSROOT" ] && [ -x "$SYSROOT/bin/rustc" ]; then
    "$SYSROOT/bin/rustc" --edition 2021 --crate-type lib src/lib.rs --emit=dep-info -o dep.d -Awarnings \
        && echo "rustc accepts the crate and reads: $(head -1 dep.d | cut -d: -f2-)"
fi
"$RUSTFMT" src/lib.rs; rc=$?
echo "rustfmt exit status $rc"
violated=0
if grep -q 'fn   ' src/other.rs || grep -q 'fn   ' src/lib.rs; then
    echo "VIOLATION: src/lib.rs / src/other.rs (reachable, not skipped) were not formatted"; violated=1
fi
# control: one arm without the marker
printf 'pub fn   f( ) { }\n' > src/windows.rs
"$RUSTFMT" src/lib.rs; echo "control (windows.rs without the marker): exit status $?, other.rs now: $(cat src/other.rs)"
if [ $violated = 1 ]; then echo "RESULT: property C13 violated"; exit 1; fi
echo "RESULT: property holds"; exit 0
