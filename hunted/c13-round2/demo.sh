#!/bin/bash
# C13 violation: a non-mod-rs file that is reached twice -- once as `mod x;` (its children live in
# x/) and once as `#[path = "x.rs"] mod y;` (a #[path] file is mod-rs-like: its children are its
# siblings) -- is visited only for the FIRST declaration.  The children that belong to the second
# declaration (reachable by the language's rules, rustc reads them) are silently never formatted,
# exit status 0, and which half is dropped depends on the order of the two declarations.
#
# usage: demo.sh <dir with rustfmt binary>     exit 1 = property violated, 0 = holds
BIN=${1:-/tmp/wt/c13y/target/debug}
RUSTFMT=$BIN/rustfmt
SYSROOT=$( (cd "$(dirname "$0")/.." 2>/dev/null && rustc --print sysroot 2>/dev/null) || rustc --print sysroot 2>/dev/null)
[ -n "$SYSROOT" ] && export LD_LIBRARY_PATH=$SYSROOT/lib${LD_LIBRARY_PATH:+:$LD_LIBRARY_PATH}
T=$(mktemp -d /tmp/c13y-demo.XXXXXX)
trap 'rm -rf "$T"' EXIT
export HOME=$T/home XDG_CONFIG_HOME=$T/home/.config; mkdir -p "$HOME"
"$RUSTFMT" --version >/dev/null || { echo "cannot run $RUSTFMT"; exit 2; }

violated=0
run_case() {   # $1 = label, $2 = text of lib.rs
    local d=$T/$1
    mkdir -p "$d/src/x"
    printf '%s' "$2" > "$d/src/lib.rs"
    printf 'mod child;\n' > "$d/src/x.rs"
    printf 'pub fn   nested( ) { }\n'  > "$d/src/x/child.rs"   # child of `mod x;`            (x/child.rs)
    printf 'pub fn   sibling( ) { }\n' > "$d/src/child.rs"     # child of `#[path] mod y;`    (child.rs)
    printf 'pub fn   decoy( ) { }\n'   > "$d/src/decoy.rs"     # declared by nobody
    # Oracle, when a rustc is around: which files does the language reach?
    if [ "$3" != norustc ] && [ -n "$SYSROOT" ] && [ -x "$SYSROOT/bin/rustc" ]; then
        (cd "$d" && "$SYSROOT/bin/rustc" --edition 2021 --crate-type lib src/lib.rs --emit=dep-info -o dep.d -Awarnings \
            && echo "[$1] rustc reads:   $(head -1 dep.d | cut -d: -f2-)")
    fi
    (cd "$d" && "$RUSTFMT" src/lib.rs); local rc=$?
    echo "[$1] rustfmt exit status: $rc"
    for f in src/x/child.rs src/child.rs; do
        if grep -q 'fn   ' "$d/$f"; then
            echo "[$1] VIOLATION: reachable file $f was NOT formatted: $(cat "$d/$f")"
            violated=1
        else
            echo "[$1] formatted: $f"
        fi
    done
    grep -q 'fn   ' "$d/src/decoy.rs" || { echo "[$1] VIOLATION: decoy formatted"; violated=1; }
}

run_case default-first $'mod x;\n#[path = "x.rs"]\nmod y;\n'
run_case path-first    $'#[path = "x.rs"]\nmod y;\nmod x;\n'
# One declaration is enough: the cfg_attr arm names the default file.  Without the feature the
# language reaches x/child.rs, with it child.rs; rustfmt registers x.rs once, as a #[path] file.
run_case cfg-attr-same $'#[cfg_attr(feature = "flat", path = "x.rs")]\nmod x;\n'
# Inside cfg_if! (the usual place for a second declaration of the same file).
run_case cfg-if        $'cfg_if::cfg_if! {\n    if #[cfg(feature = "flat")] {\n        #[path = "x.rs"]\n        mod y;\n    } else {\n        mod x;\n    }\n}\n' norustc

if [ $violated = 1 ]; then
    echo "RESULT: property C13 violated (reachable files silently left unformatted, exit 0)"
    exit 1
fi
echo "RESULT: property holds"
exit 0
