#!/bin/bash
# C13 violation (cfg_attr(path) + inline nesting): `#[cfg_attr(unix, path = "unix_dir")] mod sys { pub mod a; }`
# On unix the language looks for `a` in src/unix_dir/ (a path attribute on an inline module names the
# directory of its children), elsewhere in src/sys/.  For `mod a;` declarations rustfmt follows every
# cfg_attr(path) arm; for an inline module it only looks at a plain #[path]
# (push_inline_mod_directory -> find_path_value) and ignores the arm:
#   * src/unix_dir/a.rs, the file rustc reads here, is never formatted (exit 0, silently);
#   * when src/sys/a.rs does not exist -- a crate that builds fine on unix -- the whole run fails with
#     "failed to resolve mod `a`: .../src/sys/a.rs does not exist" and nothing is formatted.
#
# usage: demo4.sh <dir with rustfmt binary>     exit 1 = property violated, 0 = holds
BIN=${1:-/tmp/wt/c13y/target/debug}
RUSTFMT=$BIN/rustfmt
SYSROOT=$( (cd "$(dirname "$0")/.." 2>/dev/null && rustc --print sysroot 2>/dev/null) || rustc --print sysroot 2>/dev/null)
[ -n "$SYSROOT" ] && export LD_LIBRARY_PATH=$SYSROOT/lib${LD_LIBRARY_PATH:+:$LD_LIBRARY_PATH}
T=$(mktemp -d /tmp/c13y-demo.XXXXXX)
trap 'rm -rf "$T"' EXIT
export HOME=$T/home XDG_CONFIG_HOME=$T/home/.config; mkdir -p "$HOME"
"$RUSTFMT" --version >/dev/null || { echo "cannot run $RUSTFMT"; exit 2; }

mkdir -p "$T/src/unix_dir" "$T/src/sys"; cd "$T"
printf '#[cfg_attr(unix, path = "unix_dir")]\nmod sys {\n    pub mod a;\n}\npub fn   root( ) { }\n' > src/lib.rs
printf 'pub fn   unix_a( ) { }\n'    > src/unix_dir/a.rs
printf 'pub fn   default_a( ) { }\n' > src/sys/a.rs
if [ -n "$SYSROOT" ] && [ -x "$SYSROOT/bin/rustc" ]; then
    "$SYSROOT/bin/rustc" --edition 2021 --crate-type lib src/lib.rs --emit=dep-info -o dep.d -Awarnings \
        && echo "rustc reads: $(head -1 dep.d | cut -d: -f2-)"
fi
violated=0
"$RUSTFMT" src/lib.rs; echo "rustfmt exit status $?"
if grep -q 'fn   ' src/unix_dir/a.rs; then echo "VIOLATION: src/unix_dir/a.rs (cfg_attr(path) arm) not formatted"; violated=1; fi
grep -q 'fn   ' src/sys/a.rs || echo "(src/sys/a.rs, the other configuration's file, was formatted)"

rm -rf src/sys
printf '#[cfg_attr(unix, path = "unix_dir")]\nmod sys {\n    pub mod a;\n}\npub fn   root( ) { }\n' > src/lib.rs
"$RUSTFMT" src/lib.rs; rc=$?; echo "without src/sys/: rustfmt exit status $rc"
if [ $rc != 0 ] && grep -q 'fn   ' src/lib.rs; then echo "VIOLATION: a crate that is complete on unix is rejected, nothing formatted"; violated=1; fi
if [ $violated = 1 ]; then echo "RESULT: property C13 violated"; exit 1; fi
echo "RESULT: property holds"; exit 0
