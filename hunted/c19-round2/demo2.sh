#!/bin/bash
# C19 finding 2 (title of the property rather than its letter): the hunk of a SYMLINK entry
# (git mode 120000: the "content" is the link target, one line) is taken for a hunk of Rust
# text; rustfmt follows the link and reformats line 1 of a file the patch never touched.
#
# usage: demo2.sh <dir with rustfmt, rustfmt-format-diff>      exit 1 = violated
BIN=${1:?usage: demo2.sh BIN_DIR}
BIN=$(cd "$BIN" && pwd)
if [ -z "$LD_LIBRARY_PATH" ] && command -v rustc >/dev/null; then
    export LD_LIBRARY_PATH=$(cd "$BIN" && rustc --print sysroot 2>/dev/null)/lib
fi
T=$(mktemp -d)
trap 'rm -rf "$T"' EXIT
cat > "$T/real.sh" <<EOF
#!/bin/sh
exec "$BIN/rustfmt" --unstable-features "\$@"
EOF
chmod +x "$T/real.sh"
mkdir "$T/repo"; cd "$T/repo" || exit 2
git init -q . && git config user.email a@b && git config user.name n
printf 'fn  untouched( ) {  }\nfn ok() {}\n' > target.rs
git add . && git commit -qm base
ln -s target.rs link.rs            # the whole change: one new symlink
git add . && git diff --cached > "$T/p.diff"
sed 's/^/    | /' "$T/p.diff"
before=$(cat target.rs)
RUSTFMT="$T/real.sh" "$BIN/rustfmt-format-diff" -p1 < "$T/p.diff"
rc=$?
echo "exit $rc; target.rs (not in the patch) is now:"; sed 's/^/    /' target.rs
if [ "$before" != "$(cat target.rs)" ]; then
    echo "VIOLATION: the patch added no line to any Rust file, yet target.rs:1 was reformatted"
    exit 1
fi
echo "holds"; exit 0
