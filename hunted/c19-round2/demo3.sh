#!/bin/bash
# C19, borderline (the quantifier excludes "paths with spaces"): the path capture `(\S*)` of
# the regex crate is Unicode aware, so a path holding U+00A0 NO-BREAK SPACE, U+3000
# IDEOGRAPHIC SPACE or U+0085 is cut there; the stump does not match `.*\.rs`; the file is
# silently skipped, exit 0.  (git prints such a path literally with core.quotepath=false.)
# usage: demo3.sh BIN_DIR      exit 1 = the file with added lines was not handed to rustfmt
BIN=${1:?usage: demo3.sh BIN_DIR}
BIN=$(cd "$BIN" && pwd)
if [ -z "$LD_LIBRARY_PATH" ] && command -v rustc >/dev/null; then
    export LD_LIBRARY_PATH=$(cd "$BIN" && rustc --print sysroot 2>/dev/null)/lib
fi
T=$(mktemp -d); trap 'rm -rf "$T"' EXIT
mkdir -p "$T/r/src"; cd "$T/r" || exit 2
git init -q . && git config user.email a@b && git config user.name n
git config core.quotepath false     # common outside ASCII-only shops; avoids the known F48 quoting
name=$(printf 'src/caf\xc2\xa0x.rs')          # U+00A0 inside the name, no ASCII space
printf 'fn a() {}\n' > "$name"; git add . && git commit -qm base
printf 'fn  b( ) { }\n' >> "$name"
git diff > ../p.diff; cd ..; sed 's/^/    | /' p.diff
out=$(RUSTFMT=echo "$BIN/rustfmt-format-diff" -p1 < p.diff); rc=$?
echo "exit $rc, rustfmt invocation: '${out}'"
if [ $rc -eq 0 ] && [ -z "$out" ]; then echo "file with an added line silently skipped"; exit 1; fi
exit 0
