#!/bin/bash
# C19 finding 1: a post-image path that begins with `-` is handed to rustfmt as an OPTION,
# not as a file to format (src/format-diff/main.rs:105-109: `.args(files)` with no `--`).
#
# usage: demo.sh <dir with rustfmt, rustfmt-format-diff>      exit 1 = property violated
BIN=${1:?usage: demo.sh BIN_DIR}
BIN=$(cd "$BIN" && pwd)
if [ -z "$LD_LIBRARY_PATH" ] && command -v rustc >/dev/null; then
    export LD_LIBRARY_PATH=$(cd "$BIN" && rustc --print sysroot 2>/dev/null)/lib
fi
T=$(mktemp -d)
trap 'rm -rf "$T"' EXIT
violated=0

# a recording stand-in for rustfmt: one line per argv element
cat > "$T/rec.sh" <<EOF
#!/bin/sh
for a in "\$@"; do printf '%s\n' "\$a"; done > "$T/argv"
EOF
# the real rustfmt; this build wants --unstable-features for --file-lines (known, not the point)
cat > "$T/real.sh" <<EOF
#!/bin/sh
exec "$BIN/rustfmt" --unstable-features "\$@"
EOF
chmod +x "$T/rec.sh" "$T/real.sh"

newrepo() {
    rm -rf "$T/repo"; mkdir "$T/repo"; cd "$T/repo" || exit 2
    git init -q . && git config user.email a@b && git config user.name n
}

echo "=== scenario A: default filter, the patch adds a line to ./-x.rs and to ./b.rs"
newrepo
printf 'fn a() {}\n' > ./-x.rs
printf 'fn b() {}\n' > b.rs
git add -- ./-x.rs b.rs && git commit -qm base
printf 'fn  added_x( ) { }\n' >> ./-x.rs
printf 'fn  added_b( ) { }\n' >> b.rs
git diff -U0 > "$T/a.diff"
sed 's/^/    | /' "$T/a.diff"
RUSTFMT="$T/rec.sh" "$BIN/rustfmt-format-diff" -p1 < "$T/a.diff"
echo "argv given to rustfmt:"; sed 's/^/    /' "$T/argv"
# everything before --file-lines is meant to be a file; is any of it an option to rustfmt?
if sed '/^--file-lines$/,$d' "$T/argv" | grep -q '^-' && ! grep -qx -- '--' "$T/argv"; then
    echo "VIOLATION: '-x.rs' is passed where rustfmt (getopts) parses options; no '--' separator"
    violated=1
fi
RUSTFMT="$T/real.sh" "$BIN/rustfmt-format-diff" -p1 < "$T/a.diff" > "$T/out" 2>&1
echo "real rustfmt: exit $? -- $(head -1 "$T/out")"
echo "b.rs afterwards (its added line was never formatted either):"; sed 's/^/    /' b.rs

echo
echo "=== scenario B: -f '.*', a stray file named -V is part of the patch: silent no-op, exit 0"
newrepo
printf 'fn b() {}\n' > b.rs; printf 'x\n' > ./-V
git add -- ./-V b.rs && git commit -qm base
printf 'fn  added_b( ) { }\n' >> b.rs; printf 'y\n' >> ./-V
git diff -U0 > "$T/b.diff"
RUSTFMT="$T/real.sh" "$BIN/rustfmt-format-diff" -p1 -f '.*' < "$T/b.diff" > "$T/out" 2>&1
rc=$?
echo "exit $rc, output: $(cat "$T/out")"
sed 's/^/    /' b.rs
if [ $rc -eq 0 ] && grep -q 'fn  added_b( ) { }' b.rs; then
    echo "VIOLATION: tool reports success, rustfmt was asked for its version, b.rs line 2 not formatted"
    violated=1
fi

echo
echo "=== scenario C: -f '.*', a stray file named --print-config=default: b.rs is OVERWRITTEN, exit 0"
newrepo
printf 'fn b() {}\n' > b.rs; printf 'x\n' > ./--print-config=default
git add -- ./--print-config=default b.rs && git commit -qm base
printf 'fn  added_b( ) { }\n' >> b.rs; printf 'y\n' >> ./--print-config=default
git diff -U0 > "$T/c.diff"
RUSTFMT="$T/real.sh" "$BIN/rustfmt-format-diff" -p1 -f '.*' < "$T/c.diff" > "$T/out" 2>&1
rc=$?
echo "exit $rc; b.rs now starts with:"; head -3 b.rs | sed 's/^/    /'
if [ $rc -eq 0 ] && grep -q '^max_width' b.rs; then
    echo "VIOLATION: b.rs (a file of the patch) was replaced by rustfmt's default configuration"
    violated=1
fi

echo
if [ $violated -eq 1 ]; then echo "C19 violated"; exit 1; fi
echo "C19 holds"; exit 0
