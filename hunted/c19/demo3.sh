#!/bin/bash
# End-to-end: rustfmt-format-diff never passes --unstable-features, and the rustfmt built from the
# same tree rejects --file-lines without it, so every non-empty patch fails and nothing is formatted.
. "$(dirname "$0")/common.sh"
mkdir "$TMP/repo" && cd "$TMP/repo" && git_init
mkdir src; printf 'fn a() {}\n' > src/a.rs; commit v1
printf 'fn   added( ) { }\n' >> src/a.rs
git diff -U0 > "$TMP/patch.diff"
# the documented way of running it: rustfmt found through PATH, no RUSTFMT wrapper
PATH="$BIN:$PATH" "$BIN/rustfmt-format-diff" -p1 < "$TMP/patch.diff" > "$TMP/out" 2> "$TMP/err"; rc=$?
echo "--- exit status: $rc"; echo "--- stderr"; cat "$TMP/err"; echo "--- stdout (first line)"; head -n 1 "$TMP/out"
echo "--- src/a.rs afterwards"; cat src/a.rs
if [ $rc -ne 0 ] || ! grep -q '^fn added() {}$' src/a.rs; then
    echo "VIOLATION: a patch adding one line to a matching file was not turned into a formatted line;"
    echo "           rustfmt refused the request that format-diff built"
    exit 1
fi
echo "property holds"; exit 0
