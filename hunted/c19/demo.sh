#!/bin/bash
# C19 violation: with -p N, a file whose path has fewer than N slashes does not reset the
# "current file"; its hunks are attributed to the previous matching file.
. "$(dirname "$0")/common.sh"
mkdir "$TMP/repo" && cd "$TMP/repo" && git_init
mkdir src
# src/a.rs: line 7 (line 8 after the patch) is badly formatted and is NOT touched by the patch
printf 'fn a1() {}\nfn a2() {}\nfn a3() {}\nfn a4() {}\nfn a5() {}\nfn a6() {}\nfn   untouched( ) { }\nfn a8() {}\n' > src/a.rs
printf 'fn t1() {}\nfn t2() {}\nfn t3() {}\nfn t4() {}\nfn t5() {}\nfn t6() {}\nfn t7() {}\nfn t8() {}\n' > top.rs
commit v1
# version 2: one line added to src/a.rs (line 2), one line added to top.rs (line 8)
sed -i '1a fn   added_a( ) { }' src/a.rs
sed -i '7a fn   added_top( ) { }' top.rs
git diff -U0 > "$TMP/patch.diff"
echo "--- the patch"; cat "$TMP/patch.diff"
cp src/a.rs "$TMP/a.before"
# the user formats the files below src/ : cd src; git diff | rustfmt-format-diff -p2
cd src
RUSTFMT="$TMP/rustfmt-wrapper" "$BIN/rustfmt-format-diff" -p2 < "$TMP/patch.diff"; rc=$?
echo "--- rustfmt-format-diff -p2 exit status: $rc"
echo "--- argv given to rustfmt"; cat "$TMP/argv"
echo "--- changes made to src/a.rs"; diff "$TMP/a.before" a.rs
want='[{"file":"a.rs","range":[2,2]}]'
got=$(tail -n 1 "$TMP/argv")
if [ "$got" != "$want" ]; then
    echo "VIOLATION: expected --file-lines $want"
    echo "           got                 $got"
    echo "           (the range [8,8] is the hunk of top.rs, which has no path after stripping 2 components)"
    grep -q '^fn untouched() {}$' a.rs && echo "           line 8 of src/a.rs, which the patch did not add, was reformatted"
    exit 1
fi
echo "property holds"; exit 0
