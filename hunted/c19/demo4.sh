#!/bin/bash
# A patch that also touches a non-UTF-8 (e.g. Latin-1) text file makes format-diff panic while
# scanning; the matching Rust file of the same patch is never handed to rustfmt.
. "$(dirname "$0")/common.sh"
mkdir "$TMP/repo" && cd "$TMP/repo" && git_init
mkdir src; printf 'fn a() {}\n' > src/a.rs; printf 'caf\xe9\n' > NOTES.txt; commit v1
printf 'fn   added( ) { }\n' >> src/a.rs; printf 'th\xe9\n' >> NOTES.txt
git diff -U0 > "$TMP/patch.diff"
RUSTFMT="$TMP/rustfmt-wrapper" "$BIN/rustfmt-format-diff" -p1 < "$TMP/patch.diff" > "$TMP/out" 2> "$TMP/err"; rc=$?
echo "--- exit status: $rc"; echo "--- stderr (first lines)"; head -n 3 "$TMP/err"
echo "--- src/a.rs afterwards"; cat src/a.rs
if [ ! -e "$TMP/argv" ]; then
    echo "VIOLATION: src/a.rs matches the filter and gained line 2, but rustfmt was never run (panic at line.unwrap())"
    exit 1
fi
echo "property holds"; exit 0
