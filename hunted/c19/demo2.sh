#!/bin/bash
# C19 violation: the filter is anchored as ^PATTERN$ without grouping, so a pattern with a
# top-level alternation is only anchored at its outer ends: files that do not match it are formatted.
. "$(dirname "$0")/common.sh"
mkdir "$TMP/repo" && cd "$TMP/repo" && git_init
mkdir -p src tests vendor/tests
for f in src/ok.rs tests/ok.rs src/template.rs.in vendor/tests/third_party.rs; do printf 'fn a() {}\n' > $f; done
commit v1
for f in src/ok.rs tests/ok.rs src/template.rs.in vendor/tests/third_party.rs; do printf 'fn   added( ) { }\n' >> $f; done
git diff -U0 > "$TMP/patch.diff"
FILTER='src/.*\.rs|tests/.*\.rs'
RUSTFMT="$TMP/rustfmt-wrapper" "$BIN/rustfmt-format-diff" -p1 -f "$FILTER" < "$TMP/patch.diff"; rc=$?
echo "--- rustfmt-format-diff -p1 -f '$FILTER' exit status: $rc"
echo "--- files given to rustfmt (sorted)"; sed '/^--file-lines$/,$d' "$TMP/argv" | sort | tee "$TMP/got"
echo "--- files of the patch whose whole path matches the filter (grep -Ex)"
git diff --name-only | grep -Ex "$FILTER" | sort | tee "$TMP/want"
echo "--- git status"; git status --short
if ! cmp -s "$TMP/got" "$TMP/want"; then
    echo "VIOLATION: files that do not match the filter were formatted:"
    comm -23 "$TMP/got" "$TMP/want" | sed 's/^/    /'
    exit 1
fi
echo "property holds"; exit 0
