#!/bin/bash
# git quotes paths holding non-ASCII bytes ("b/src/caf\303\251.rs"); format-diff takes the quoted,
# escaped spelling literally, the filter fails on the trailing quote and the file is silently skipped.
. "$(dirname "$0")/common.sh"
mkdir "$TMP/repo" && cd "$TMP/repo" && git_init
mkdir src; printf 'fn a() {}\n' > 'src/café.rs'; commit v1
printf 'fn   added( ) { }\n' >> 'src/café.rs'
git diff -U0 > "$TMP/patch.diff"; echo "--- the patch"; cat "$TMP/patch.diff"
RUSTFMT="$TMP/rustfmt-wrapper" "$BIN/rustfmt-format-diff" -p1 < "$TMP/patch.diff"; rc=$?
echo "--- exit status: $rc"
echo "--- src/café.rs afterwards"; cat 'src/café.rs'
if [ $rc -eq 0 ] && [ ! -e "$TMP/argv" ]; then
    echo "VIOLATION: src/café.rs matches .*\\.rs and gained line 2, but rustfmt was not run and the tool reported success"
    exit 1
fi
echo "property holds"; exit 0
