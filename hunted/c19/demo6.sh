#!/bin/bash
# End-to-end: when a patch touches both a root file and one of its module files, both are given to
# rustfmt as inputs; the module file is then formatted twice (once through `mod a;`, once as an
# input), the second time with the same line numbers applied to the already rewritten file.
. "$(dirname "$0")/common.sh"
mkdir "$TMP/repo" && cd "$TMP/repo" && git_init
mkdir src
printf 'mod a;\nfn l() {}\n' > src/lib.rs
printf 'fn f() {\n    let   untouched  =  1;\n}\n' > src/a.rs
commit v1
printf 'fn   m( ) { }\n' >> src/lib.rs
printf 'fn f() {\n    let v = vec![1,\n      2];\n    let   untouched  =  1;\n}\n' > src/a.rs
git diff -U0 > "$TMP/patch.diff"; echo "--- the patch"; cat "$TMP/patch.diff"
RUSTFMT="$TMP/rustfmt-wrapper" "$BIN/rustfmt-format-diff" -p1 < "$TMP/patch.diff"; rc=$?
echo "--- exit status: $rc"; echo "--- argv given to rustfmt"; cat "$TMP/argv"
echo "--- src/a.rs afterwards"; cat src/a.rs
if ! grep -q '^    let   untouched  =  1;$' src/a.rs; then
    echo "VIOLATION (end to end): a line of src/a.rs that the patch did not add was reformatted"
    exit 1
fi
echo "property holds"; exit 0
