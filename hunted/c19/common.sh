# sourced by the demo scripts: $1 = directory holding the built binaries
BIN=$(cd "${1:?usage: $0 <dir with built binaries>}" && pwd)
if [ -z "${LD_LIBRARY_PATH:-}" ]; then
    # the binaries link against the toolchain's librustc_driver
    LD_LIBRARY_PATH=$(cd "$BIN/../.." 2>/dev/null && rustc --print sysroot 2>/dev/null)/lib
    export LD_LIBRARY_PATH
fi
TMP=$(mktemp -d)
trap 'rm -rf "$TMP"' EXIT
# RUSTFMT wrapper: records its argv (one argument per line) and then runs the real rustfmt.
# --unstable-features is added because the rustfmt of this tree rejects --file-lines without it
# (see demo3.sh); without the wrapper nothing at all would be formatted.
cat > "$TMP/rustfmt-wrapper" <<WRAP
#!/bin/sh
for a in "\$@"; do printf '%s\n' "\$a"; done > "$TMP/argv"
exec "$BIN/rustfmt" --unstable-features "\$@"
WRAP
chmod +x "$TMP/rustfmt-wrapper"
git_init() { git init -q . && git config user.email a@b && git config user.name n && git config core.autocrlf false; }
commit() { git add -A && git commit -qm "$1"; }
