#!/bin/bash
# C16 violation: float_literal_trailing_zero = Always / IfNoPostfix / Never and a binary or octal
# integer literal with a float suffix (`0b1f32`, `0o7f64`) -- the parser accepts it (the "binary
# float literal is not supported" error belongs to AST lowering, so under #[cfg(any())] it even
# compiles) -- rewrite_float_lit unwraps parse_float_symbol's Err (src/expr.rs:1411), exit 101.
# usage: demo2.sh <dir holding the built binaries>
BIN=${1:?usage: demo2.sh <bin dir>}
export LD_LIBRARY_PATH="$(cd /tmp/wt/c16z 2>/dev/null && rustc --print sysroot 2>/dev/null)/lib:$LD_LIBRARY_PATH"
T=$(mktemp -d)
trap 'rm -rf "$T"' EXIT
bad=0
printf '#[cfg(any())]\nconst X: f32 = 0b1f32;\nfn main() {}\n' > "$T/a.rs"      # rustc compiles this
printf 'fn f() {\n    let x = 0o7f64;\n}\n' > "$T/b.rs"
printf 'fn f() {\n    let s = 0b1f32..;\n}\n' > "$T/c.rs"

"$BIN/rustfmt" --check "$T/a.rs" > /dev/null 2>&1
echo "a.rs, default configuration: exit status $? (control)"
for f in a b c; do
    for v in Always IfNoPostfix Never; do
        "$BIN/rustfmt" --check --config float_literal_trailing_zero=$v "$T/$f.rs" > "$T/out" 2> "$T/err"
        s=$?
        echo "$f.rs float_literal_trailing_zero=$v: exit status $s"
        if [ $s -ne 0 ] && [ $s -ne 1 ]; then bad=1; grep -m1 -A1 'panicked at' "$T/err"; fi
    done
done
# the same through rustfmt.toml and standard input
( cd "$T" && echo 'float_literal_trailing_zero = "Always"' > rustfmt.toml && "$BIN/rustfmt" < b.rs > /dev/null 2> err2; s=$?; echo "stdin + rustfmt.toml: exit status $s"; [ $s -eq 0 ] || [ $s -eq 1 ] ) || bad=1
if [ $bad -eq 1 ]; then
    echo "VIOLATION: rustfmt terminated abnormally (exit status other than 0/1)"
    exit 1
fi
echo "property holds"
exit 0
