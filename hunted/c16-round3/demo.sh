#!/bin/bash
# C16 violation: a foreign module whose ABI string literal spans two lines (perfectly legal,
# compilable Rust: `extern "C\<newline>" {}` -- the backslash-newline is a line continuation,
# the ABI is "C") makes rustfmt panic (formatting.rs: line-count consistency assertion), exit 101.
# usage: demo.sh <dir holding the built binaries>
BIN=${1:?usage: demo.sh <bin dir>}
export LD_LIBRARY_PATH="$(cd /tmp/wt/c16z 2>/dev/null && rustc --print sysroot 2>/dev/null)/lib:$LD_LIBRARY_PATH"
T=$(mktemp -d)
trap 'rm -rf "$T"' EXIT
bad=0

# 1. valid Rust (rustc accepts it, the ABI is "C"): line continuation inside the ABI literal
printf 'extern "C\\\n" {\n    fn f();\n}\n' > "$T/a.rs"
# 2. a real line break inside the ABI literal (parses; rustc rejects the ABI only after parsing)
printf 'extern "a\nb" {}\n' > "$T/b.rs"
# 3. raw string ABI with a line break
printf 'unsafe extern r"a\nb" {}\n' > "$T/c.rs"

for f in a b c; do
    "$BIN/rustfmt" --check "$T/$f.rs" > "$T/$f.out" 2> "$T/$f.err"
    s=$?
    echo "$f.rs (as a file): exit status $s"
    "$BIN/rustfmt" < "$T/$f.rs" > "$T/$f.out2" 2> "$T/$f.err2"
    s2=$?
    echo "$f.rs (on stdin):  exit status $s2"
    for st in $s $s2; do
        if [ "$st" -ne 0 ] && [ "$st" -ne 1 ]; then bad=1; fi
    done
    grep -h -m1 'panicked at' "$T/$f.err" "$T/$f.err2" | sort -u
done

# control: the same ABI on a function goes through push_rewrite and is fine
printf 'extern "C\\\n" fn g() {}\n' > "$T/d.rs"
"$BIN/rustfmt" --check "$T/d.rs" > /dev/null 2>&1
echo "control (extern \"C\\<nl>\" fn): exit status $?"

if [ $bad -eq 1 ]; then
    echo "VIOLATION: rustfmt terminated abnormally (exit status other than 0/1)"
    exit 1
fi
echo "property holds"
exit 0
