#!/bin/bash
# C18 finding 1: `cargo fmt` (no selection flag) run from a directory of a virtual workspace that
# is below the workspace root but inside no member (e.g. the very common <ws>/crates/ directory
# that holds the members) ends with "Failed to find targets", exit 1, without any rustfmt
# invocation -- although `cargo fmt` from <ws> itself (and `--manifest-path <ws>/Cargo.toml`,
# F28) formats the members, and cargo itself uses <ws>/Cargo.toml from there.
#
# usage: demo.sh <dir with cargo-fmt and rustfmt>     exit 1 = property violated, 0 = holds
BIN=$(cd "${1:?usage: demo.sh <bin dir>}" && pwd)
WT=$(cd "$BIN/../.." && pwd)
SYSROOT=$(cd "$WT" 2>/dev/null && rustc --print sysroot 2>/dev/null || rustc --print sysroot)
export LD_LIBRARY_PATH=$SYSROOT/lib${LD_LIBRARY_PATH:+:$LD_LIBRARY_PATH}
export PATH=$SYSROOT/bin:$PATH

T=$(mktemp -d)
trap 'rm -rf "$T"' EXIT
cd "$T" || exit 2

# a rustfmt wrapper that records every invocation and its status, then runs the real one
cat > "$T/rustfmt-logged" <<EOF
#!/bin/sh
"$BIN/rustfmt" "\$@"
rc=\$?
echo "rc=\$rc args=\$*" >> "$T/calls.log"
exit \$rc
EOF
chmod +x "$T/rustfmt-logged"
export RUSTFMT="$T/rustfmt-logged"

mkdir -p ws/crates/a/src ws/crates/b/src ws/docs
cat > ws/Cargo.toml <<'EOF'
[workspace]
members = ["crates/a", "crates/b"]
resolver = "2"
EOF
printf '[package]\nname = "a"\nversion = "0.1.0"\nedition = "2018"\n' > ws/crates/a/Cargo.toml
printf '[package]\nname = "b"\nversion = "0.1.0"\nedition = "2021"\n' > ws/crates/b/Cargo.toml
UNFORMATTED='fn  main( ) { }'
echo "$UNFORMATTED" > ws/crates/a/src/main.rs
echo "$UNFORMATTED" > ws/crates/b/src/main.rs

violated=0
for dir in ws/crates ws/docs; do
    : > "$T/calls.log"
    echo "=== cd $dir && cargo fmt"
    (cd "$dir" && "$BIN/cargo-fmt" fmt > "$T/out.log" 2>&1; rc=$?; head -1 "$T/out.log"; exit $rc)
    rc=$?
    ncalls=$(wc -l < "$T/calls.log")
    nfailed=$(grep -vc '^rc=0 ' "$T/calls.log")
    echo "    exit status $rc, rustfmt invocations: $ncalls, of which failed: $nfailed"
    if [ "$rc" -ne 0 ] && [ "$nfailed" -eq 0 ]; then
        echo "    VIOLATION: non-zero exit although no rustfmt invocation failed (nothing was formatted)"
        violated=1
    fi
done

echo "=== for comparison: cd ws && cargo fmt"
: > "$T/calls.log"
(cd ws && "$BIN/cargo-fmt" fmt); echo "    exit status $?"; sed 's/^/    /' "$T/calls.log"

exit $violated
