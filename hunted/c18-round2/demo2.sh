#!/bin/bash
# C18 finding 2: a Cargo.toml that is a symbolic link (cargo is happy with it: `cargo check`,
# `cargo metadata` work and report <member>/Cargo.toml) defeats the manifest comparison of
# get_targets_root_only():
#  (a) `cargo fmt` from inside a member of a multi-package workspace whose Cargo.toml is a symlink
#      -> "Failed to find targets", exit 1, no rustfmt invocation
#  (b) `cargo fmt --manifest-path <virtual ws>/Cargo.toml` where that Cargo.toml is a symlink
#      -> "Failed to find targets", exit 1 (while `cargo fmt` from <ws> formats both members)
#
# usage: demo2.sh <dir with cargo-fmt and rustfmt>     exit 1 = property violated, 0 = holds
BIN=$(cd "${1:?usage: demo2.sh <bin dir>}" && pwd)
WT=$(cd "$BIN/../.." && pwd)
SYSROOT=$(cd "$WT" 2>/dev/null && rustc --print sysroot 2>/dev/null || rustc --print sysroot)
export LD_LIBRARY_PATH=$SYSROOT/lib${LD_LIBRARY_PATH:+:$LD_LIBRARY_PATH}
export PATH=$SYSROOT/bin:$PATH

T=$(mktemp -d)
trap 'rm -rf "$T"' EXIT
cd "$T" || exit 2

cat > "$T/rustfmt-logged" <<EOF
#!/bin/sh
"$BIN/rustfmt" "\$@"
rc=\$?
echo "rc=\$rc args=\$*" >> "$T/calls.log"
exit \$rc
EOF
chmod +x "$T/rustfmt-logged"
export RUSTFMT="$T/rustfmt-logged"

mk() { # workspace dir
    mkdir -p "$1/a/src" "$1/b/src"
    printf '[workspace]\nmembers = ["a", "b"]\nresolver = "2"\n' > "$1/Cargo.toml"
    printf '[package]\nname = "a"\nversion = "0.1.0"\nedition = "2018"\n' > "$1/a/Cargo.toml"
    printf '[package]\nname = "b"\nversion = "0.1.0"\nedition = "2021"\n' > "$1/b/Cargo.toml"
    echo 'fn  main( ) { }' > "$1/a/src/main.rs"
    echo 'fn  main( ) { }' > "$1/b/src/main.rs"
}

violated=0
check() { # label, rc
    ncalls=$(wc -l < "$T/calls.log")
    nfailed=$(grep -vc '^rc=0 ' "$T/calls.log")
    echo "    exit status $2, rustfmt invocations: $ncalls, of which failed: $nfailed"
    if [ "$2" -ne 0 ] && [ "$nfailed" -eq 0 ]; then
        echo "    VIOLATION ($1): non-zero exit although no rustfmt invocation failed"
        violated=1
    fi
}

# (a) member manifest is a symlink
mk ws1
mkdir ws1/manifests
mv ws1/a/Cargo.toml ws1/manifests/a.toml
ln -s ../manifests/a.toml ws1/a/Cargo.toml
echo "=== (a) cargo accepts the layout:"
(cd ws1/a && cargo metadata --offline --no-deps --format-version 1 >/dev/null && echo "    cargo metadata ok")
echo "=== (a) cd ws1/a && cargo fmt          (a/Cargo.toml -> ../manifests/a.toml)"
: > "$T/calls.log"
(cd ws1/a && "$BIN/cargo-fmt" fmt > "$T/out.log" 2>&1; rc=$?; head -1 "$T/out.log"; exit $rc); check a $?
echo "=== (a) for comparison: cargo fmt --manifest-path ws1/a/Cargo.toml"
: > "$T/calls.log"
"$BIN/cargo-fmt" fmt --manifest-path ws1/a/Cargo.toml; echo "    exit status $?"; sed 's/^/    /' "$T/calls.log"

# (b) virtual workspace manifest is a symlink
mk ws2
mv ws2/Cargo.toml ws2/workspace.toml
ln -s workspace.toml ws2/Cargo.toml
echo "=== (b) cargo fmt --manifest-path ws2/Cargo.toml      (ws2/Cargo.toml -> workspace.toml)"
: > "$T/calls.log"
("$BIN/cargo-fmt" fmt --manifest-path ws2/Cargo.toml > "$T/out.log" 2>&1; rc=$?; head -1 "$T/out.log"; exit $rc); check b $?
echo "=== (b) for comparison: cd ws2 && cargo fmt"
: > "$T/calls.log"
(cd ws2 && "$BIN/cargo-fmt" fmt); echo "    exit status $?"; sed 's/^/    /' "$T/calls.log"

exit $violated
