#!/bin/bash
# C18 finding 3 (sibling of F4, other code path): when the options after `--` (or `--version`)
# make cargo fmt take the "information" path (get_rustfmt_info: --version, -V, -h, --help[=..],
# --print-config[=..]), a rustfmt child that is killed by a signal makes cargo fmt exit 0.
#
# usage: demo3.sh <dir with cargo-fmt and rustfmt>     exit 1 = property violated, 0 = holds
BIN=$(cd "${1:?usage: demo3.sh <bin dir>}" && pwd)
WT=$(cd "$BIN/../.." && pwd)
SYSROOT=$(cd "$WT" 2>/dev/null && rustc --print sysroot 2>/dev/null || rustc --print sysroot)
export LD_LIBRARY_PATH=$SYSROOT/lib${LD_LIBRARY_PATH:+:$LD_LIBRARY_PATH}
export PATH=$SYSROOT/bin:$PATH

T=$(mktemp -d)
trap 'rm -rf "$T"' EXIT
cd "$T" || exit 2

# a rustfmt that dies from a signal (stands for: OOM kill, SIGSEGV, SIGXFSZ under ulimit -f, ...)
printf '#!/bin/sh\nkill -KILL $$\n' > "$T/rustfmt-killed"
chmod +x "$T/rustfmt-killed"
export RUSTFMT="$T/rustfmt-killed"

mkdir -p p/src
printf '[package]\nname = "p"\nversion = "0.1.0"\nedition = "2021"\n' > p/Cargo.toml
echo 'fn main() {}' > p/src/main.rs
cd p || exit 2

violated=0
try() {
    echo "=== cargo fmt $*"
    "$BIN/cargo-fmt" fmt "$@" >/dev/null 2>&1
    rc=$?
    echo "    exit status $rc   (the rustfmt invocation was killed by SIGKILL)"
    if [ "$rc" -eq 0 ]; then
        echo "    VIOLATION: exit 0 although the rustfmt invocation failed"
        violated=1
    fi
}
try --version
try -- --print-config current .
try -- --help=config
echo "=== for comparison (formatting path, repaired by F4): cargo fmt"
"$BIN/cargo-fmt" fmt >/dev/null 2>&1; echo "    exit status $?"

exit $violated
