#!/bin/sh
# C06: `--check` says "nothing to do" (exit 0, no output) for a file that plain `rustfmt`
# then REWRITES -- with coverage text (comments replaced by X), which is no longer Rust.
#
# Trigger: the rustfmt.toml in force for the file (found next to it, or the user-level one)
# holds `emit_mode = "Coverage"`.  The emitter of the run is built once, before any file's
# configuration has been looked up, from a configuration that never read a rustfmt.toml
# (-> Files); the text is produced under the file's own configuration (-> coverage text).
#
# usage: demo.sh <dir with the built binaries>
BIN=${1:?usage: demo.sh BIN_DIR}
RUSTFMT=$BIN/rustfmt
if [ -z "$LD_LIBRARY_PATH" ]; then
    SYSROOT=$(cd "$BIN/../.." 2>/dev/null && rustc --print sysroot 2>/dev/null)
    [ -n "$SYSROOT" ] && export LD_LIBRARY_PATH=$SYSROOT/lib
fi

T=$(mktemp -d) || exit 2
trap 'rm -rf "$T"' EXIT
export HOME=$T/home XDG_CONFIG_HOME=$T/home/.config
mkdir -p "$HOME" "$T/p"
cd "$T" || exit 2

# a correctly formatted file
printf '// a comment\nfn main() {\n    let x = 1; // trailing\n}\n' > p/a.rs
cp p/a.rs orig.rs
printf 'emit_mode = "Coverage"\n' > p/rustfmt.toml

"$RUSTFMT" --check p/a.rs > check.out 2> check.err
check_rc=$?
echo "rustfmt --check p/a.rs      -> exit $check_rc, stdout $(wc -c < check.out) bytes, stderr $(wc -c < check.err) bytes"
if ! cmp -s p/a.rs orig.rs; then echo "unexpected: --check modified the file"; exit 1; fi

touch -d '2001-01-01 00:00:00' p/a.rs
before=$(stat -c %Y p/a.rs)
"$RUSTFMT" p/a.rs > plain.out 2> plain.err
plain_rc=$?
after=$(stat -c %Y p/a.rs)
echo "rustfmt p/a.rs              -> exit $plain_rc, stdout $(wc -c < plain.out) bytes, stderr $(wc -c < plain.err) bytes"
echo "file after plain rustfmt:"
sed 's/^/    | /' p/a.rs

# what the same configuration prints when it is given with --config-path (emitter and text agree)
cp orig.rs p/b.rs
"$RUSTFMT" --config-path p/rustfmt.toml p/b.rs > cp.out 2>&1
echo "rustfmt --config-path p/rustfmt.toml p/b.rs -> exit $?, file $(cmp -s p/b.rs orig.rs && echo untouched || echo REWRITTEN), $(wc -c < cp.out) bytes on stdout"

rewritten=no
cmp -s p/a.rs orig.rs || rewritten=yes
[ "$before" != "$after" ] && rewritten=yes

if [ "$check_rc" = 0 ] && [ ! -s check.err ] && [ "$plain_rc" = 0 ] && [ ! -s plain.err ] \
   && [ "$rewritten" = yes ]; then
    echo "VIOLATION: --check exited 0 without reporting an error, yet plain rustfmt rewrote the file"
    "$RUSTFMT" --check p/a.rs > /dev/null 2>&1
    echo "(and the rewritten file no longer parses: --check now exits $?)"
    exit 1
fi
echo "property holds"
exit 0
