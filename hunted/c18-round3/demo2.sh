#!/bin/bash
# C18 demo 2 (same mechanism as demo.sh, other layout): member a -> ext (path dependency OUTSIDE the
# workspace) -> ws/helper (a crate inside the workspace directory that is no member, because only
# path dependencies of *members* become members automatically).  `cargo check` accepts the layout,
# `cargo fmt --all` aborts with exit 1 before rustfmt is started.
BIN=${1:?usage: demo2.sh <bindir>}
BIN=$(cd "$BIN" && pwd)
if [ -z "$LD_LIBRARY_PATH" ]; then
  export LD_LIBRARY_PATH=$(cd "$BIN/../.." 2>/dev/null && rustc --print sysroot 2>/dev/null)/lib
fi
T=$(mktemp -d); trap 'rm -rf "$T"' EXIT
W=$T/ws
mkpkg() { mkdir -p "$1/src"; printf '[package]\nname = "%s"\nversion = "0.1.0"\nedition = "%s"\n%b\n' "$2" "$3" "$4" > "$1/Cargo.toml"; printf 'pub fn  f( ) {}\n' > "$1/src/lib.rs"; }
mkdir -p "$W"
printf '[workspace]\nmembers = ["a", "b"]\nresolver = "2"\n' > "$W/Cargo.toml"
mkpkg "$W/a"      a      2018 '[dependencies]\next = { path = "../../ext" }'
mkpkg "$W/b"      b      2015 ''
mkpkg "$T/ext"    ext    2021 '[dependencies]\nhelper = { path = "../ws/helper" }'
mkpkg "$W/helper" helper 2024 ''
(cd "$W" && RUSTFMT="$BIN/rustfmt" "$BIN/cargo-fmt" fmt --all 2>&1 | sed -n '1,4p'; exit "${PIPESTATUS[0]}")
st=$?; echo "exit status: $st"
left=0
for f in ws/a ws/b ext ws/helper; do
  if grep -q 'pub fn  f( )' "$T/$f/src/lib.rs"; then echo "NOT formatted: $f/src/lib.rs"; left=$((left+1)); fi
done
if [ $st -ne 0 ] || [ $left -ne 0 ]; then echo "VIOLATION: exit $st, $left file(s) not formatted, no rustfmt invocation failed"; exit 1; fi
echo "property holds"; exit 0
