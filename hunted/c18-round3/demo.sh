#!/bin/bash
# C18 demo: `cargo fmt --all` aborts (exit 1, nothing formatted) on a healthy workspace whose
# member depends on an *excluded* in-tree crate (vendor/x) that in turn depends on its
# in-tree sibling (vendor/y).  No rustfmt invocation fails -- rustfmt is never even started.
# usage: demo.sh <dir with cargo-fmt and rustfmt>      exit 1 = property violated, 0 = holds
BIN=${1:?usage: demo.sh <bindir>}
BIN=$(cd "$BIN" && pwd)
if [ -z "$LD_LIBRARY_PATH" ]; then
  export LD_LIBRARY_PATH=$(cd "$BIN/../.." 2>/dev/null && rustc --print sysroot 2>/dev/null)/lib
fi
T=$(mktemp -d); trap 'rm -rf "$T"' EXIT
W=$T/ws
mkpkg() { # dir name edition extra
  mkdir -p "$1/src"
  printf '[package]\nname = "%s"\nversion = "0.1.0"\nedition = "%s"\n%b\n' "$2" "$3" "$4" > "$1/Cargo.toml"
  printf 'pub fn  f( ) {}\n' > "$1/src/lib.rs"          # badly formatted on purpose
}
mkdir -p "$W"
printf '[workspace]\nmembers = ["a"]\nexclude = ["vendor/x"]\nresolver = "2"\n' > "$W/Cargo.toml"
mkpkg "$W/a"        a 2018 '[dependencies]\nx = { path = "../vendor/x" }'
mkpkg "$W/vendor/x" x 2015 '[dependencies]\ny = { path = "../y" }'
mkpkg "$W/vendor/y" y 2021 ''

echo "--- the workspace is usable: cargo metadata (with dependencies) resolves a, x and y"
(cd "$W" && cargo metadata --offline --format-version 1 2>/dev/null | tr ',' '\n' | grep -c '"manifest_path"') \
  | sed 's/^/packages resolved: /'

echo "--- cargo fmt --all (real rustfmt)"
(cd "$W" && RUSTFMT="$BIN/rustfmt" "$BIN/cargo-fmt" fmt --all 2>&1 | sed -n '1,4p'; exit "${PIPESTATUS[0]}")
st=$?
echo "exit status: $st"
left=0
for f in a vendor/x vendor/y; do
  if grep -q 'pub fn  f( )' "$W/$f/src/lib.rs"; then echo "NOT formatted: $f/src/lib.rs"; left=$((left+1)); fi
done
if [ $st -ne 0 ] || [ $left -ne 0 ]; then
  echo "VIOLATION: --all must format every member and every local path dependency (a, x, y);"
  echo "           no rustfmt invocation failed, yet the exit status is $st and $left file(s) were left alone"
  exit 1
fi
echo "property holds"; exit 0
