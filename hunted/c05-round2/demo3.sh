#!/bin/bash
# C05 (missing file, timing): `#[cfg_attr(feature = "x", path = "alt.rs")] mod m;` -- the default
# file m.rs is there when rustfmt looks for it (stat) but gone when it is opened a moment later
# (an editor saving with unlink + create, `git checkout`, a build script regenerating it).
#   (a) the file stays away:  alt.rs and lib.rs are rewritten, THEN the run fails with exit 1
#       ("writes nothing for that crate root" broken; the plain `mod m;` control writes nothing)
#   (b) the file is back by the time results are stored: m.rs is overwritten with the text of
#       lib.rs (the declaring file), exit 0 -- a file replaced by something that is not its
#       formatted text.
# The disappearance is emulated with a small LD_PRELOAD shim (needs cc).
#
# usage: demo3.sh <dir holding rustfmt>      exit 1 = property violated, 0 = holds / cannot check
BIN=${1:-/tmp/wt/c05y/target/debug}
RUSTFMT=$BIN/rustfmt
if [ -z "$LD_LIBRARY_PATH" ]; then
    SYSROOT=$( (cd "$BIN/../.." 2>/dev/null && rustc --print sysroot 2>/dev/null) || rustc --print sysroot 2>/dev/null)
    [ -n "$SYSROOT" ] && export LD_LIBRARY_PATH=$SYSROOT/lib
fi
T=$(mktemp -d)
trap 'rm -rf "$T"' EXIT
cd "$T" || exit 0

cat > blink.c <<'EOF'
#define _GNU_SOURCE
#include <dlfcn.h>
#include <errno.h>
#include <fcntl.h>
#include <stdarg.h>
#include <stdlib.h>
#include <string.h>
#include <sys/stat.h>
#include <unistd.h>
/* The first read-open of a path ending in $BLINK_SUFFIX fails with ENOENT.
 * BLINK_MODE=gone : the file is really unlinked at that moment.
 * BLINK_MODE=back : the file is only briefly absent: the first stat after the failed open also
 *                   says ENOENT, afterwards it is there again (content untouched). */
static int state = 0;
static int match(const char *path) {
    const char *suf = getenv("BLINK_SUFFIX");
    if (!suf || !path) return 0;
    size_t lp = strlen(path), ls = strlen(suf);
    return lp >= ls && strcmp(path + lp - ls, suf) == 0;
}
static int fail_open(const char *path, int flags) {
    if (state != 0 || (flags & (O_WRONLY | O_RDWR)) || !match(path)) return 0;
    const char *mode = getenv("BLINK_MODE");
    if (mode && strcmp(mode, "gone") == 0) { unlink(path); state = 2; } else state = 1;
    return 1;
}
#define OPENFN(name) \
int name(const char *path, int flags, ...) { \
    static int (*real)(const char *, int, ...); \
    if (!real) real = dlsym(RTLD_NEXT, #name); \
    mode_t mode = 0; \
    if (flags & O_CREAT) { va_list ap; va_start(ap, flags); mode = va_arg(ap, mode_t); va_end(ap); } \
    if (fail_open(path, flags)) { errno = ENOENT; return -1; } \
    return real(path, flags, mode); \
}
OPENFN(open)
OPENFN(open64)
#define STATCHECK if (state == 1 && match(path)) { state = 2; errno = ENOENT; return -1; }
int statx(int dirfd, const char *path, int flags, unsigned int mask, struct statx *buf) {
    static int (*real)(int, const char *, int, unsigned int, struct statx *);
    if (!real) real = dlsym(RTLD_NEXT, "statx");
    STATCHECK
    return real(dirfd, path, flags, mask, buf);
}
int stat64(const char *path, struct stat64 *buf) {
    static int (*real)(const char *, struct stat64 *);
    if (!real) real = dlsym(RTLD_NEXT, "stat64");
    STATCHECK
    return real(path, buf);
}
int stat(const char *path, struct stat *buf) {
    static int (*real)(const char *, struct stat *);
    if (!real) real = dlsym(RTLD_NEXT, "stat");
    STATCHECK
    return real(path, buf);
}
EOF
if ! cc -shared -fPIC -o blink.so blink.c -ldl 2> cc.err; then
    echo "cannot build the LD_PRELOAD shim (no C compiler?): not checked"; cat cc.err; exit 0
fi

mk_tree() { # $1 dir, $2 text of lib.rs
    mkdir -p "$1"
    printf '%s' "$2" > "$1/lib.rs"
    printf 'fn  alt( ){}\n' > "$1/alt.rs"
    printf 'fn  m( ){}\n' > "$1/m.rs"
    (cd "$1" && sha1sum alt.rs lib.rs m.rs > sums)
}
run() { # $1 dir, $2 mode
    (cd "$1" && LD_PRELOAD="$T/blink.so" BLINK_SUFFIX=/m.rs BLINK_MODE=$2 "$RUSTFMT" lib.rs > out.txt 2> err.txt); EC=$?
    CHANGED=$(cd "$1" && sha1sum -c sums 2>/dev/null | grep -v ': OK$' | sed 's/: FAILED.*//' | tr '\n' ' ')
}
CFG='#[cfg_attr(feature = "x", path = "alt.rs")]
mod m;
fn  main( ){}
'
PLAIN='mod alt;
mod m;
fn  main( ){}
'
VIOLATED=0

mk_tree ctl "$PLAIN"; run ctl gone
echo "control, plain 'mod m;', m.rs vanishes:        exit=$EC rewritten=[$CHANGED]   (m.rs itself is gone, of course)"

mk_tree a "$CFG"; run a gone
echo "(a) cfg_attr(path) + 'mod m;', m.rs vanishes:  exit=$EC rewritten=[$CHANGED]"
grep -h '^Error' a/err.txt
case "$CHANGED" in *alt.rs*|*lib.rs*) echo "VIOLATION (a): the run failed (exit $EC) after rewriting alt.rs / lib.rs"; VIOLATED=1;; esac

mk_tree b "$CFG"; run b back
echo "(b) same, m.rs only briefly absent:            exit=$EC rewritten=[$CHANGED]"
echo "--- m.rs was:";   printf 'fn  m( ){}\n'
echo "--- m.rs is now:"; cat b/m.rs
if ! grep -q 'fn *m' b/m.rs; then
    echo "VIOLATION (b): m.rs now holds the text of lib.rs; exit status $EC"; VIOLATED=1
fi

[ $VIOLATED = 1 ] && exit 1
echo "property holds"
exit 0
