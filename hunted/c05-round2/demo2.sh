#!/bin/bash
# C05 (unresolvable module): in a non-root, non-mod.rs file y.rs, `mod w;` means y/w.rs (or
# y/w/mod.rs).  When neither exists the module is unresolvable -- rustc: E0583 "file not found for
# module `w`".  rustfmt silently falls back to ./w.rs (next to y.rs), formats that file, which no
# declaration of the crate names, rewrites the rest of the crate and exits 0.
#
# usage: demo2.sh <dir holding rustfmt>      exit 1 = property violated, 0 = holds
BIN=${1:-/tmp/wt/c05y/target/debug}
RUSTFMT=$BIN/rustfmt
if [ -z "$LD_LIBRARY_PATH" ]; then
    SYSROOT=$( (cd "$BIN/../.." 2>/dev/null && rustc --print sysroot 2>/dev/null) || rustc --print sysroot 2>/dev/null)
    [ -n "$SYSROOT" ] && export LD_LIBRARY_PATH=$SYSROOT/lib
fi
T=$(mktemp -d)
trap 'rm -rf "$T"' EXIT
cd "$T" || exit 0

printf 'mod y;\nfn  main( ){}\n' > lib.rs
printf 'mod   w;\nfn  y( ){}\n' > y.rs          # y.rs is not a mod.rs: its children live in y/
printf 'fn  stray( ){}\n' > w.rs                # NOT y/w.rs: nothing declares this file
mkdir y                                         # (present or absent makes no difference)
sha1sum lib.rs y.rs w.rs > sums

if command -v rustc > /dev/null; then
    echo "--- rustc's view of the same tree:"
    rustc --edition 2021 --crate-type lib lib.rs --emit metadata -o "$T/out.rmeta" 2>&1 | head -4
fi

"$RUSTFMT" lib.rs > out.txt 2> err.txt; EC=$?
CHANGED=$(sha1sum -c sums 2>/dev/null | grep -v ': OK$' | tr '\n' ' ')
echo "--- rustfmt lib.rs: exit=$EC changed=[$CHANGED]"
echo "--- stderr:"; cat err.txt
echo "--- w.rs now:"; cat w.rs

# control: the same declaration in the crate root (where ./w.rs IS the right place) with w.rs
# missing is reported as it should be
mkdir ctl && printf 'mod nothere;\nfn  main( ){}\n' > ctl/lib.rs
"$RUSTFMT" ctl/lib.rs > /dev/null 2> ctl/err.txt; echo "--- control (missing module of the root): exit=$? $(head -1 ctl/err.txt)"

if [ "$EC" != 1 ] || [ -n "$CHANGED" ]; then
    echo "VIOLATION: module w of y.rs is unresolvable (y/w.rs does not exist), yet exit status is $EC and files were rewritten: $CHANGED"
    exit 1
fi
echo "property holds"
exit 0
