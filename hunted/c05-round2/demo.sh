#!/bin/bash
# C05 violation: a module file with a syntax error is accepted, rewritten (tokens are dropped /
# invented) and the run exits 0 without any diagnostic -- when a file of the `ignore` list that
# has a (silenced) syntax error was parsed earlier in the same crate.
#
# usage: demo.sh <dir holding rustfmt>      exit 1 = property violated, 0 = holds
BIN=${1:-/tmp/wt/c05y/target/debug}
RUSTFMT=$BIN/rustfmt
if [ -z "$LD_LIBRARY_PATH" ]; then
    SYSROOT=$( (cd "$BIN/../.." 2>/dev/null && rustc --print sysroot 2>/dev/null) || rustc --print sysroot 2>/dev/null)
    [ -n "$SYSROOT" ] && export LD_LIBRARY_PATH=$SYSROOT/lib
fi
T=$(mktemp -d)
trap 'rm -rf "$T"' EXIT

mk_tree() { # $1 = dir, $2 = text of gen.rs, $3 = text of lib.rs
    mkdir -p "$1"
    printf 'ignore = ["gen.rs"]\n' > "$1/rustfmt.toml"
    printf '%s' "$3" > "$1/lib.rs"
    printf '%s' "$2" > "$1/gen.rs"
    # z.rs: three syntax errors rustc's parser reports (and rustfmt refuses on their own):
    #   missing type for `const` item / field expressions cannot have generic arguments /
    #   lifetimes cannot start with a number
    printf 'const   X = 1;\nfn  zz( ){ let a = x.foo::<u32>; }\nfn  l<'"'"'1a>( ){}\n' > "$1/z.rs"
    (cd "$1" && sha1sum lib.rs gen.rs z.rs > sums)
}
run() { # $1 = dir -> sets EC, CHANGED, ERR
    (cd "$1" && "$RUSTFMT" lib.rs > out.txt 2> err.txt); EC=$?
    CHANGED=$(cd "$1" && sha1sum -c sums 2>/dev/null | grep -v ': OK$' | tr '\n' ' ')
    ERR=$(grep -c . "$1/err.txt")
}

BROKEN_GEN='fn f() { let x = 1 +; }
'
GOOD_GEN='fn f() {}
'
# control 1: the ignored file is fine -> z.rs is refused, as the property demands
mk_tree "$T/ctl1" "$GOOD_GEN" 'mod gen;
mod z;
fn  main( ){}
'
run "$T/ctl1"
echo "control 1 (ignored gen.rs parses):            exit=$EC changed=[$CHANGED] stderr lines=$ERR"
[ "$EC" = 1 ] && [ -z "$CHANGED" ] || { echo "unexpected control result"; }

# control 2: the ignored file is broken but declared AFTER z -> z.rs is refused
mk_tree "$T/ctl2" "$BROKEN_GEN" 'mod z;
mod gen;
fn  main( ){}
'
run "$T/ctl2"
echo "control 2 (broken gen.rs declared after z):   exit=$EC changed=[$CHANGED] stderr lines=$ERR"

# the violation: the ignored file is broken and declared BEFORE z
mk_tree "$T/bad" "$BROKEN_GEN" 'mod gen;
mod z;
fn  main( ){}
'
run "$T/bad"
echo "fault run  (broken gen.rs declared before z): exit=$EC changed=[$CHANGED] stderr lines=$ERR"
echo "--- z.rs before:"; printf 'const   X = 1;\nfn  zz( ){ let a = x.foo::<u32>; }\nfn  l<'"'"'1a>( ){}\n'
echo "--- z.rs after:";  cat "$T/bad/z.rs"
echo "--- stderr:";      cat "$T/bad/err.txt"

if [ "$EC" != 1 ] || [ -n "$CHANGED" ]; then
    echo "VIOLATION: z.rs has syntax errors, yet exit status is $EC, files rewritten: $CHANGED"
    exit 1
fi
echo "property holds"
exit 0
