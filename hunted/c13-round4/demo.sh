#!/bin/bash
# C13 "no other file in the tree is read for writing": with --backup, rustfmt writes its
# intermediate text to <stem>.tmp and moves the original to <stem>.bk without looking whether
# such files already exist. An undeclared neighbour `a.tmp` is truncated, overwritten and then
# renamed away (it is gone after the run); an undeclared neighbour `a.bk` is replaced.
# usage: demo.sh <dir with the built binaries>
BIN=${1:-/tmp/wt/c13w/target/debug}
export LD_LIBRARY_PATH=$(cd /tmp/wt/c13w && rustc --print sysroot 2>/dev/null)/lib:$LD_LIBRARY_PATH
T=$(mktemp -d); trap 'rm -rf "$T"' EXIT
mkdir -p "$T/src"
printf 'mod a;\nfn   root( ){}\n'  > "$T/src/lib.rs"
printf 'fn   child( ){}\n'         > "$T/src/a.rs"
# decoys: no module declares them, they are not Rust sources, rustfmt has no business with them
printf 'my notes, unrelated to rustfmt\n'        > "$T/src/a.tmp"
printf 'an older backup I made by hand\n'        > "$T/src/a.bk"
printf 'unrelated too\n'                         > "$T/src/lib.tmp"
( cd "$T" && find src -type f | sort | xargs sha256sum ) > "$T/before"
( cd "$T" && "$BIN/rustfmt" --backup src/lib.rs ); rc=$?
echo "rustfmt --backup src/lib.rs -> exit $rc"
echo "--- tree after the run"; ( cd "$T" && ls -la src )
bad=0
for f in a.tmp lib.tmp; do
  if [ ! -e "$T/src/$f" ]; then echo "VIOLATION: undeclared file src/$f was destroyed (overwritten, then renamed over src/${f%.tmp}.rs)"; bad=1
  elif ! grep -q unrelated "$T/src/$f"; then echo "VIOLATION: undeclared file src/$f was overwritten"; bad=1; fi
done
if ! grep -q 'by hand' "$T/src/a.bk"; then
  echo "VIOLATION: undeclared file src/a.bk was replaced; it now holds:"; sed 's/^/    /' "$T/src/a.bk"; bad=1
fi
[ $bad = 1 ] && exit 1
echo "property holds"; exit 0
