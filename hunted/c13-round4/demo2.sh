#!/bin/bash
# Mirror image of F49 (same root cause: `ignore` is matched against the path as spelled).
# src/plain.rs is NOT under the ignored directory src/gen/, but it is declared from
# src/gen/mod.rs as #[path = "../plain.rs"], so its spelled path is src/gen/../plain.rs and
# matched_path_or_any_parents() finds the ignored parent `src/gen`: a reachable, non-excluded
# file is silently left unformatted (exit 0).
BIN=${1:-/tmp/wt/c13w/target/debug}
export LD_LIBRARY_PATH=$(cd /tmp/wt/c13w && rustc --print sysroot 2>/dev/null)/lib:$LD_LIBRARY_PATH
T=$(mktemp -d); trap 'rm -rf "$T"' EXIT
mkdir -p "$T/src/gen"
printf 'ignore = ["src/gen"]\n' > "$T/rustfmt.toml"
printf 'mod gen;\nfn   f( ){}\n' > "$T/src/lib.rs"
printf '#[path = "../plain.rs"]\nmod plain;\nfn   f( ){}\n' > "$T/src/gen/mod.rs"
printf 'fn   f( ){}\n' > "$T/src/plain.rs"
( cd "$T" && "$BIN/rustfmt" src/lib.rs ); echo "exit $?"
if grep -q 'fn   f( )' "$T/src/plain.rs"; then
  echo "VIOLATION: src/plain.rs (reachable, not under src/gen/) was not formatted"; exit 1
fi
echo "property holds"; exit 0
