#!/bin/bash
# C16 violation: an `extern` block whose ABI string holds a line break -- written as the escape
# `\n` (or as a real line break inside the literal) -- trips the consistency check of format_file:
# format_item (src/items.rs:368-369) writes the ABI with `self.buffer.push_str(&item.abi)`, past
# `FmtVisitor::push_str` which counts the line breaks, and format_extern (src/utils.rs:146) prints
# `abi.symbol_unescaped`, i.e. the *unescaped* text.  `debug_assert_eq!(visitor.line_number,
# count_newlines(&visitor.buffer))` (src/formatting.rs:233) then fails: exit status 101.
# usage: demo6.sh <dir-with-built-binaries>
BIN=${1:?usage: demo6.sh <bindir>}
BIN=$(cd "$BIN" && pwd)
if [ -z "$LD_LIBRARY_PATH" ]; then
    root=$(cd "$BIN/../.." 2>/dev/null && rustc --print sysroot 2>/dev/null)
    [ -n "$root" ] && export LD_LIBRARY_PATH="$root/lib"
fi
export RUSTC_ICE=0
T=$(mktemp -d)
trap 'rm -rf "$T"' EXIT
cd "$T"

violated=0
run() { # name, source text (printf format)
    printf "$2" > "$T/$1.rs"
    "$BIN/rustfmt" --check "$T/$1.rs" > "$T/$1.out" 2> "$T/$1.err"
    rc=$?
    echo "$1: exit status $rc"
    if [ $rc -ne 0 ] && [ $rc -ne 1 ]; then
        grep -m1 -A1 'panicked at' "$T/$1.err"
        violated=1
    fi
}

run control_plain_abi 'extern "C" {\n    fn f();\n}\n'
run control_fn_abi 'extern "a\\nb" fn f() {}\n'
run escaped_newline 'extern "a\\nb" {\n    fn f();\n}\n'
run unicode_escape 'unsafe extern "\\u{a}" {}\n'
run real_newline 'extern "C\n" {\n    fn f();\n}\n'

if [ $violated -eq 1 ]; then
    echo "VIOLATION: rustfmt terminated abnormally (exit status other than 0/1)"
    exit 1
fi
echo "property holds"
exit 0
