#!/bin/bash
# C16 violation: struct_field_align_threshold > 0, two groups of fields (separated by a blank
# line), the comma that ends the first group preceded by two or more blanks and followed by a line
# comment that ends in a multi-byte character: rewrite_with_alignment (src/vertical.rs:137-141)
# computes the end of the first group as `init_hi + len(first line after the comma) + 2`
# ("2 = ',' + '\n'"), which assumes that the comma follows the field immediately; with blanks
# before the comma the position falls short, inside the last character of the comment, and the
# list code slices the source there: src/visitor.rs:46 "byte index N is not a char boundary",
# exit status 101.  Struct definitions and struct literals alike.
# usage: demo5.sh <dir-with-built-binaries>
BIN=${1:?usage: demo5.sh <bindir>}
BIN=$(cd "$BIN" && pwd)
if [ -z "$LD_LIBRARY_PATH" ]; then
    root=$(cd "$BIN/../.." 2>/dev/null && rustc --print sysroot 2>/dev/null)
    [ -n "$root" ] && export LD_LIBRARY_PATH="$root/lib"
fi
export RUSTC_ICE=0
T=$(mktemp -d)
trap 'rm -rf "$T"' EXIT
cd "$T"

violated=0
run() { # name, config, source text
    printf '%s' "$3" > "$T/$1.rs"
    "$BIN/rustfmt" --check --config "$2" "$T/$1.rs" > "$T/$1.out" 2> "$T/$1.err"
    rc=$?
    echo "$1 [$2]: exit status $rc"
    if [ $rc -ne 0 ] && [ $rc -ne 1 ]; then
        grep -m1 -A1 'panicked at' "$T/$1.err"
        violated=1
    fi
}

DEF='struct S {
    a: u8  , // éééé

    b: u16,
}
'
LIT='fn f() {
    let s = S {
        a: 1  , // ünï

        bbbbbbbbbbbbbbbbbbbbbbbbbbbbbbbbbbbbbbbbbbbbbbb: 2222222222222222222222222222222222222222222222222,
    };
}
'
ASCII='struct S {
    a: u8  , // eeee

    b: u16,
}
'
run control_default struct_field_align_threshold=0 "$DEF"
run control_ascii struct_field_align_threshold=20 "$ASCII"
run struct_def struct_field_align_threshold=20 "$DEF"
run struct_lit struct_field_align_threshold=20 "$LIT"

if [ $violated -eq 1 ]; then
    echo "VIOLATION: rustfmt terminated abnormally (exit status other than 0/1)"
    exit 1
fi
echo "property holds"
exit 0
