#!/bin/bash
# C16 violation: an associated `reuse` (fn delegation) item inside an impl or
# trait body makes rustfmt hit `unreachable!()` in visit_assoc_item
# (src/visitor.rs) and die with exit status 101.
# usage: demo.sh <dir-with-built-binaries>
BIN=${1:?usage: demo.sh <bindir>}
BIN=$(cd "$BIN" && pwd)
if [ -z "$LD_LIBRARY_PATH" ]; then
    # the binaries link against librustc_driver of the pinned toolchain
    root=$(cd "$BIN/../.." 2>/dev/null && rustc --print sysroot 2>/dev/null)
    [ -n "$root" ] && export LD_LIBRARY_PATH="$root/lib"
fi
T=$(mktemp -d)
trap 'rm -rf "$T"' EXIT
cd "$T"

violated=0
run() { # name, source text
    printf '%s\n' "$2" > "$T/$1.rs"
    "$BIN/rustfmt" --check "$T/$1.rs" > "$T/$1.out" 2> "$T/$1.err"
    rc=$?
    echo "$1: exit status $rc"
    if [ $rc -ne 0 ] && [ $rc -ne 1 ]; then
        grep -m1 -A1 'panicked at' "$T/$1.err"
        violated=1
    fi
}

# control: the same item at module level is accepted (printed verbatim)
run control_free_item 'reuse a::b;'
# 1. delegation item in a trait impl
run impl_item 'impl Trait for S {
    reuse to_reuse::foo;
}'
# 2. delegation item with a body in a trait
run trait_item 'trait Trait {
    reuse to_reuse::bar { self.0 }
}'
# 3. glob / list delegation in an inherent impl
run impl_list 'impl S {
    reuse Trait::{foo, bar};
}'
# also on stdin
printf 'impl S { reuse Trait::*; }\n' | "$BIN/rustfmt" > "$T/stdin.out" 2> "$T/stdin.err"
rc=$?
echo "stdin: exit status $rc"
if [ $rc -ne 0 ] && [ $rc -ne 1 ]; then grep -m1 -A1 'panicked at' "$T/stdin.err"; violated=1; fi

if [ $violated -eq 1 ]; then
    echo "VIOLATION: rustfmt terminated abnormally (exit status other than 0/1)"
    exit 1
fi
echo "property holds"
exit 0
