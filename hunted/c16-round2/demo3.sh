#!/bin/bash
# C16 violation: a macro_rules! (or `macro`) definition whose arm is indented so that
# arm indent + tab_spaces > max_width while arm indent + 5 <= max_width makes
# `config.max_width() - body_indent.width()` underflow in MacroBranch::rewrite
# (src/macros.rs:1326): "attempt to subtract with overflow", exit status 101.
# Reachable on usable pages with tab_spaces 6..8, e.g. max_width=47 tab_spaces=8
# (5.9 indentation steps) with the definition four blocks deep.
# usage: demo3.sh <dir-with-built-binaries>
BIN=${1:?usage: demo3.sh <bindir>}
BIN=$(cd "$BIN" && pwd)
if [ -z "$LD_LIBRARY_PATH" ]; then
    root=$(cd "$BIN/../.." 2>/dev/null && rustc --print sysroot 2>/dev/null)
    [ -n "$root" ] && export LD_LIBRARY_PATH="$root/lib"
fi
export RUSTC_ICE=0
T=$(mktemp -d)
trap 'rm -rf "$T"' EXIT
cd "$T"

violated=0
run() { # name, config, source text
    printf '%s\n' "$3" > "$T/$1.rs"
    "$BIN/rustfmt" --check --config "$2" "$T/$1.rs" > "$T/$1.out" 2> "$T/$1.err"
    rc=$?
    echo "$1 [$2]: exit status $rc"
    if [ $rc -ne 0 ] && [ $rc -ne 1 ]; then
        grep -m1 -A1 'panicked at' "$T/$1.err"
        violated=1
    fi
}

SRC='mod a { mod b { mod c { mod d {
macro_rules! m { () => { 1 }; }
} } } }'
# control: same text, default page
run control max_width=100 "$SRC"
# control: one column wider page -> no underflow
run control48 max_width=48,tab_spaces=8 "$SRC"
run mods max_width=47,tab_spaces=8 "$SRC"
run fn_body max_width=41,tab_spaces=7 'fn f() { loop { loop { if x {
macro_rules! m { ($a:expr) => { $a + 1 }; }
} } } }'
run decl_macro max_width=47,tab_spaces=8 'mod a { mod b { mod c { mod d { mod e {
macro m() { 1 }
} } } } }'

if [ $violated -eq 1 ]; then
    echo "VIOLATION: rustfmt terminated abnormally (exit status other than 0/1)"
    exit 1
fi
echo "property holds"
exit 0
