#!/bin/bash
# C16 violation: with use_try_shorthand=true a `try!(..)` invocation whose argument is not an
# expression, used as the receiver of a chain (`try!().x`, `try!(;).f()`, `try!(,)?`), makes
# rustfmt die with exit status 101: chains.rs calls convert_try_mac -> parse_expr outside the
# catch_unwind of rewrite_macro, and parse_expr drops the parser's error (`.ok()`), which panics
# ("error was constructed but not emitted").
# usage: demo2.sh <dir-with-built-binaries>
BIN=${1:?usage: demo2.sh <bindir>}
BIN=$(cd "$BIN" && pwd)
if [ -z "$LD_LIBRARY_PATH" ]; then
    root=$(cd "$BIN/../.." 2>/dev/null && rustc --print sysroot 2>/dev/null)
    [ -n "$root" ] && export LD_LIBRARY_PATH="$root/lib"
fi
export RUSTC_ICE=0   # do not drop rustc-ice-*.txt files into the temp dir
T=$(mktemp -d)
trap 'rm -rf "$T"' EXIT
cd "$T"

violated=0
run() { # name, config, source text
    printf '%s\n' "$3" > "$T/$1.rs"
    "$BIN/rustfmt" --check --config "$2" "$T/$1.rs" > "$T/$1.out" 2> "$T/$1.err"
    rc=$?
    echo "$1 [$2]: exit status $rc"
    if [ $rc -ne 0 ] && [ $rc -ne 1 ]; then
        grep -m1 -A1 'panicked at' "$T/$1.err"
        violated=1
    fi
}

# control: same text without the option
run control use_try_shorthand=false 'fn f() { try!().z; }'
# control: not a chain -> the panic happens inside rewrite_macro and is contained (exit 0)
run contained use_try_shorthand=true 'fn f() { let x = try!(); }'
# the violations (edition 2015, the default: `try` is an ordinary macro name)
run field use_try_shorthand=true 'fn f() { try!().z; }'
run method use_try_shorthand=true 'fn f() { try!(;).z(); }'
run question use_try_shorthand=true 'fn f() { try!(,)?; }'
# any edition with the raw identifier
run raw_2021 use_try_shorthand=true,edition=2021 'fn f() { r#try!(=).await; }'

if [ $violated -eq 1 ]; then
    echo "VIOLATION: rustfmt terminated abnormally (exit status other than 0/1)"
    exit 1
fi
echo "property holds"
exit 0
