#!/bin/bash
# C16 (minor; residue of the repaired F37): blank_lines_lower_bound = usize::MAX is accepted and
# push_vertical_spaces (src/missed_spans.rs:115-136) then asks for `"\n".repeat(usize::MAX - 1)`:
# "capacity overflow" panic in alloc, exit status 101.  (F37's repair made the `+ 1` saturate; the
# lower-bound branch still computes `newline_lower_bound - offset` blank lines and builds them.)
# usage: demo7.sh <dir-with-built-binaries>
BIN=${1:?usage: demo7.sh <bindir>}
BIN=$(cd "$BIN" && pwd)
if [ -z "$LD_LIBRARY_PATH" ]; then
    root=$(cd "$BIN/../.." 2>/dev/null && rustc --print sysroot 2>/dev/null)
    [ -n "$root" ] && export LD_LIBRARY_PATH="$root/lib"
fi
export RUSTC_ICE=0
T=$(mktemp -d)
trap 'rm -rf "$T"' EXIT
cd "$T"
printf 'fn a() {}\nfn b() {}\n' > "$T/x.rs"

violated=0
for cfg in blank_lines_upper_bound=18446744073709551615 \
           blank_lines_lower_bound=18446744073709551615 \
           blank_lines_upper_bound=18446744073709551615,blank_lines_lower_bound=9223372036854775807; do
    "$BIN/rustfmt" --check --config "$cfg" "$T/x.rs" > "$T/out" 2> "$T/err"
    rc=$?
    echo "[$cfg]: exit status $rc"
    if [ $rc -ne 0 ] && [ $rc -ne 1 ]; then
        grep -m1 -A1 'panicked at' "$T/err"
        violated=1
    fi
done

if [ $violated -eq 1 ]; then
    echo "VIOLATION: rustfmt terminated abnormally (exit status other than 0/1)"
    exit 1
fi
echo "property holds"
exit 0
