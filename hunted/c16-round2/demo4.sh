#!/bin/bash
# C16 violation: `--emit coverage` (or emit_mode = "Coverage" in rustfmt.toml) on a file whose
# block ends with a line comment holding multi-byte characters, followed (after a blank line) by
# another comment before the closing brace: FmtVisitor::close_block (src/visitor.rs) measures the
# comment with the length of its coverage-transformed text (every non-blank char -> 'X', one
# byte), so the next span starts inside a character and SnippetProvider::span_to_snippet
# (src/visitor.rs:46) panics: "byte index N is not a char boundary", exit status 101.
# usage: demo4.sh <dir-with-built-binaries>
BIN=${1:?usage: demo4.sh <bindir>}
BIN=$(cd "$BIN" && pwd)
if [ -z "$LD_LIBRARY_PATH" ]; then
    root=$(cd "$BIN/../.." 2>/dev/null && rustc --print sysroot 2>/dev/null)
    [ -n "$root" ] && export LD_LIBRARY_PATH="$root/lib"
fi
export RUSTC_ICE=0
T=$(mktemp -d)
trap 'rm -rf "$T"' EXIT
cd "$T"

violated=0
run() { # name, source text, extra args...
    name=$1; src=$2; shift 2
    printf '%s' "$src" > "$T/$name.rs"
    "$BIN/rustfmt" "$@" "$T/$name.rs" > "$T/$name.out" 2> "$T/$name.err"
    rc=$?
    echo "$name [$*]: exit status $rc"
    if [ $rc -ne 0 ] && [ $rc -ne 1 ]; then
        grep -m1 -A1 'panicked at' "$T/$name.err"
        violated=1
    fi
}

SRC='fn f() {
    x;
    // éé

    /* b */
}
'
ASCII='fn f() {
    x;
    // ee

    /* b */
}
'
# controls: same text in check mode; ASCII text in coverage mode
run control_check "$SRC" --check
run control_ascii "$ASCII" --emit coverage
# violation
run coverage "$SRC" --emit coverage
# the same through the configuration file
mkdir "$T/p" && echo 'emit_mode = "Coverage"' > "$T/p/rustfmt.toml"
printf '%s' "$SRC" > "$T/p/lib.rs"
"$BIN/rustfmt" "$T/p/lib.rs" > "$T/p/out" 2> "$T/p/err"; rc=$?
echo "coverage via rustfmt.toml: exit status $rc"
if [ $rc -ne 0 ] && [ $rc -ne 1 ]; then grep -m1 -A1 'panicked at' "$T/p/err"; violated=1; fi

if [ $violated -eq 1 ]; then
    echo "VIOLATION: rustfmt terminated abnormally (exit status other than 0/1)"
    exit 1
fi
echo "property holds"
exit 0
