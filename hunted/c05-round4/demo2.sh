#!/bin/bash
# Side finding (a crash on a processable input -- C16's territory rather than C05's fault list):
# with a non-empty `ignore` list, a module declared through an absolute #[path] that spells the
# directory of the rustfmt.toml with a doubled slash passes the guard in src/ignore_path.rs
# (Path::starts_with compares components) but not the byte-wise prefix strip of the `ignore` crate:
# assert!(!path.has_root()) fires, exit 101, the remaining roots are not formatted and a
# rustc-ice-*.txt file is left in the working directory.
# usage: demo2.sh <dir holding rustfmt>     exit 1 = crash reproduced, exit 0 = no crash
BIN=$(cd "${1:?usage: demo2.sh <bin dir>}" && pwd)
if [ -z "$LD_LIBRARY_PATH" ]; then
    export LD_LIBRARY_PATH="$(cd "$BIN/../.." 2>/dev/null && rustc --print sysroot 2>/dev/null)/lib"
fi
T=$(mktemp -d); trap 'rm -rf "$T"' EXIT; cd "$T" || exit 2
T=$(pwd -P)
mkdir proj
P="$(dirname "$T")//$(basename "$T")/proj"
printf 'ignore = ["zzz.rs"]\n' > proj/rustfmt.toml
printf '#[path = "%s/m.rs"]\nmod   m;\n' "$P" > proj/lib.rs
printf 'fn   m(){}\n' > proj/m.rs
printf 'fn   ok(){}\n' > proj/ok.rs
RUSTC_ICE=0 "$BIN/rustfmt" proj/lib.rs proj/ok.rs > out.txt 2>&1; ec=$?
grep -m1 "panicked at" out.txt; grep -m1 "expected to be under the root" out.txt
echo "exit=$ec; second root: $(cat proj/ok.rs)"
[ "$ec" -eq 101 ] && exit 1
exit 0
