#!/bin/bash
# C05, clause "a diagnostic is printed": a crate root that is listed in `ignore` and has a
# syntax error the parser cannot recover from (unclosed delimiter, `struct;`, stray `}` ...)
# makes the run fail with exit status 1 and NOT ONE BYTE on stderr or stdout.
#
# usage: demo.sh <dir holding rustfmt>      exit 1 = property violated, exit 0 = holds
BIN=${1:?usage: demo.sh <bin dir>}
BIN=$(cd "$BIN" && pwd)
if [ -z "$LD_LIBRARY_PATH" ]; then
    SYSROOT=$(cd "$BIN/../.." 2>/dev/null && rustc --print sysroot 2>/dev/null)
    export LD_LIBRARY_PATH="$SYSROOT/lib"
fi
R="$BIN/rustfmt"
T=$(mktemp -d)
trap 'rm -rf "$T"' EXIT
cd "$T" || exit 2

violated=0
for src in 'fn f( {}' 'struct;' '}' 'mod m {'; do
    printf '%s\n' "$src" > gen.rs
    printf 'fn   ok(){}\n' > ok.rs

    # control: the same root, not ignored -> diagnostic + exit 1
    rm -f rustfmt.toml
    ctl_out=$("$R" gen.rs ok.rs 2>&1); ctl_ec=$?

    # the case: the root is named in `ignore`
    printf 'fn   ok(){}\n' > ok.rs
    printf 'ignore = ["gen.rs"]\n' > rustfmt.toml
    before=$(md5sum < gen.rs)
    out=$("$R" gen.rs ok.rs 2>&1); ec=$?
    after=$(md5sum < gen.rs)

    echo "root text: $src"
    echo "  not ignored: exit=$ctl_ec, ${#ctl_out} bytes of output"
    echo "  ignored    : exit=$ec, ${#out} bytes of output, gen.rs unchanged: $([ "$before" = "$after" ] && echo yes || echo NO), other root formatted: $(grep -qx 'fn ok() {}' ok.rs && echo yes || echo NO)"
    if [ "$ec" -ne 0 ] && [ -z "$out" ]; then
        echo "  => VIOLATION: the run fails (exit $ec) without any diagnostic"
        violated=1
    fi
done

# what `cargo fmt` users see: rustfmt is handed every target root (tests/*.rs, build.rs, ...);
# one ignored root with such an error turns the whole run into a silent failure.
exit $violated
