#!/bin/bash
# demo.sh BIN_DIR
# C19: a large but perfectly ordinary patch (3000 one-line hunks in 60 files, 480 KB of diff)
# makes rustfmt-format-diff fail with E2BIG before rustfmt is ever started: all ranges travel
# in ONE argv string (--file-lines <json>), and Linux limits a single argument to 128 KiB
# (MAX_ARG_STRLEN), far below ARG_MAX.  Nothing is asked of rustfmt; exit status 1.
# exit 1 = property violated, exit 0 = holds.
BIN=${1:?usage: demo.sh BIN_DIR}
BIN=$(cd "$BIN" && pwd)
for c in /tmp/wt/c19z "$BIN/../.." .; do
  if [ -f "$c/rust-toolchain" ]; then SYSROOT=$(cd "$c" && rustc --print sysroot 2>/dev/null); break; fi
done
[ -n "$SYSROOT" ] || SYSROOT=$(rustc --print sysroot)
export LD_LIBRARY_PATH=$SYSROOT/lib${LD_LIBRARY_PATH:+:$LD_LIBRARY_PATH}
T=$(mktemp -d) || exit 2
trap 'rm -rf "$T"' EXIT
cd "$T"

# a rustfmt stand-in that records what it is asked
cat > fake_rustfmt <<'EOS'
#!/bin/sh
: > "$REC"
for a in "$@"; do printf '%s\n' "$a" >> "$REC"; done
exit 0
EOS
chmod +x fake_rustfmt
export RUSTFMT=$T/fake_rustfmt REC=$T/rec

mkdir -p old/src new/src
python3 - <<'EOP'
for f in range(60):
    name = "src/module_number_%03d_with_a_longish_name.rs" % f
    old, new = [], []
    for i in range(50 * 8):
        l = "fn f%d_%d() {}" % (f, i)
        old.append(l)
        new.append(l if i % 8 != 4 else "fn f%d_%d( ) { }" % (f, i))
    open("old/" + name, "w").write("\n".join(old) + "\n")
    open("new/" + name, "w").write("\n".join(new) + "\n")
EOP
diff -ruN -U1 old new > big.diff
hunks=$(grep -c '^@@' big.diff)
echo "patch: $(wc -c < big.diff) bytes, $hunks hunks, $(grep -c '^+++ ' big.diff) files; ARG_MAX=$(getconf ARG_MAX)"

# control: the first 10 files of the same patch are handled fine
awk '/^diff -ruN/{n++} n<=10' big.diff > small.diff
rm -f "$REC"
(cd new && "$BIN/rustfmt-format-diff" -p1 < ../small.diff > ../small.out 2>&1); rc_small=$?
small_ranges=$( [ -f "$REC" ] && sed -n 2p "$REC" | grep -o '"range"' | wc -l || echo 0)
echo "control (10 files): rc=$rc_small, ranges asked=$small_ranges (expected $(grep -c '^@@' small.diff))"

rm -f "$REC"
(cd new && "$BIN/rustfmt-format-diff" -p1 < ../big.diff > ../big.out 2>&1); rc=$?
echo "full patch: rc=$rc; first line of output: $(head -1 big.out)"
if [ -f "$REC" ]; then
  asked=$(sed -n 2p "$REC" | grep -o '"range"' | wc -l)
  echo "rustfmt was asked for $asked ranges"
else
  asked=0
  echo "rustfmt was never started"
fi

if [ "$rc_small" -ne 0 ] || [ "$small_ranges" -ne "$(grep -c '^@@' small.diff)" ]; then
  echo "control failed - environment problem"; exit 2
fi
if [ "$rc" -eq 0 ] && [ "$asked" -eq "$hunks" ]; then
  echo "HOLDS: all $hunks ranges were asked of rustfmt"; exit 0
fi
echo "VIOLATED: $hunks post-image ranges in matching files, none asked of rustfmt (tool fails on a legal patch)"
exit 1
