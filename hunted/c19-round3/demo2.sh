#!/bin/bash
# demo2.sh BIN_DIR
# C19, "lines that are not headers contribute nothing": since the F26 repair, a REMOVED line whose
# text starts with "-- " (rendered "--- ...") directly followed by an ADDED line whose text starts
# with "++ " (rendered "+++ ...") and that has fewer than -p slashes resets current_file to None
# (src/format-diff/main.rs:155-159).  The remaining hunks of that (matching) file are silently
# dropped, exit 0.  Same root cause as F10 (hunk content is not told from headers), but a
# different branch, a different symptom (ranges LOST, nothing redirected, no bogus file) and it
# needs no path-looking text: before the F26 repair this input was handled correctly under -p1.
BIN=${1:?usage: demo2.sh BIN_DIR}
BIN=$(cd "$BIN" && pwd)
for c in /tmp/wt/c19z "$BIN/../.." .; do
  if [ -f "$c/rust-toolchain" ]; then SYSROOT=$(cd "$c" && rustc --print sysroot 2>/dev/null); break; fi
done
[ -n "$SYSROOT" ] || SYSROOT=$(rustc --print sysroot)
export LD_LIBRARY_PATH=$SYSROOT/lib${LD_LIBRARY_PATH:+:$LD_LIBRARY_PATH}
T=$(mktemp -d) || exit 2
trap 'rm -rf "$T"' EXIT
cd "$T"
cat > fake_rustfmt <<'EOS'
#!/bin/sh
: > "$REC"
for a in "$@"; do printf '%s\n' "$a" >> "$REC"; done
exit 0
EOS
chmod +x fake_rustfmt
export RUSTFMT=$T/fake_rustfmt REC=$T/rec

git init -q repo && cd repo && mkdir src
{
  echo 'const Q: &str = "'
  echo '-- old note'
  echo '";'
  for i in $(seq 1 20); do echo "// filler $i"; done
  echo 'fn f() {'
  echo '}'
} > src/lib.rs
git add -A && git -c user.email=a@b -c user.name=n commit -qm one
sed -i 's/^-- old note$/++ new note/' src/lib.rs
sed -i 's/^fn f() {$/fn f() {\nlet x=1;/' src/lib.rs
git diff -U1 > ../p.diff
echo "--- the patch (git diff -U1):"; cat ../p.diff
"$BIN/rustfmt-format-diff" -p1 < ../p.diff; rc=$?
echo "--- rc=$rc; asked of rustfmt:"; [ -f "$REC" ] && cat "$REC" || echo "(nothing)"
want='[{"file":"src/lib.rs","range":[1,3]},{"file":"src/lib.rs","range":[24,26]}]'
got=$( [ -f "$REC" ] && sed -n 2p "$REC")
echo "--- expected --file-lines: $want"
if [ "$rc" -eq 0 ] && [ "$got" = "$want" ]; then echo HOLDS; exit 0; fi
echo "VIOLATED: the hunk +24,3 of src/lib.rs was dropped because hunk content was read as a too-short +++ header"
exit 1
