#!/bin/bash
# C05 / last clause: "a file is only ever replaced by its complete formatted text".
# A module file that opted out with #![rustfmt::skip] is OVERWRITTEN WITH THE SOURCE
# TEXT OF ITS PARENT FILE when the same file is named a second time through a
# #[cfg_attr(.., path = "..")] candidate (or is the default file of a second
# `mod` declaration that has such candidates). Exit status 0, no diagnostic.
# NOTE: the run does not fail, so only the last clause of C05 is contradicted.
. "$(dirname "$0")/common.sh"

cat > lib.rs <<'EOT'
// root comment
mod generated;
#[cfg_attr(feature = "x", path = "generated.rs")]
mod other;
fn  root( ){}
EOT
cat > generated.rs <<'EOT'
#![rustfmt::skip]
pub const TABLE: [u8;4] = [1,2,
   3,4];
EOT
printf 'fn  other( ){}\n' > other.rs
cp generated.rs generated.orig; cp lib.rs lib.orig

"$RUSTFMT" lib.rs; status=$?
echo "exit status: $status"
echo "--- generated.rs before:"; cat generated.orig
echo "--- generated.rs after:";  cat generated.rs

# variant 2: the skipped file is the *default* file of a second declaration
mkdir v2 && cd v2
cat > lib.rs <<'EOT'
#[cfg(not(feature = "alt"))]
mod imp;
#[cfg(feature = "alt")]
#[cfg_attr(feature = "alt", path = "alt.rs")]
mod imp;
fn  root( ){}
EOT
printf '#![rustfmt::skip]\nfn  generated( ){   }\n' > imp.rs; cp imp.rs imp.orig
printf 'fn  alt( ){}\n' > alt.rs
"$RUSTFMT" lib.rs; status2=$?
echo "--- variant 2: exit status $status2; imp.rs after:"; cat imp.rs
v2bad=0; cmp -s imp.rs imp.orig || v2bad=1
cd ..

if cmp -s generated.rs generated.orig && [ $v2bad = 0 ]; then
  echo "skipped files kept their exact bytes"; exit 0
fi
cmp -s generated.rs lib.orig && echo "generated.rs now holds the ORIGINAL TEXT OF lib.rs"
echo "VIOLATION: a #![rustfmt::skip] file was replaced by something that is not its formatted text (exit status $status / $status2, no diagnostic)"
exit 1
