#!/bin/bash
# C05, fault kind "both foo.rs and foo/mod.rs": the ambiguity is reported (exit 1,
# nothing written) for a plain `mod foo;`, but it is silently swallowed as soon as the
# declaration also carries a #[cfg_attr(.., path = "..")] candidate that exists:
# no diagnostic, exit status 0, the crate root and the candidate are rewritten.
# (rustc rejects this tree with E0761 whenever the cfg is off.)
. "$(dirname "$0")/common.sh"

mk() { # $1 = dir, $2 = attribute line
  mkdir -p "$1/foo"
  printf '%s\nmod foo;\nfn  root( ){}\n' "$2" > "$1/lib.rs"
  printf 'fn  a( ){}\n' > "$1/foo.rs"; printf 'fn  b( ){}\n' > "$1/foo/mod.rs"; printf 'fn  c( ){}\n' > "$1/bar.rs"
  (cd "$1" && find . -type f | sort | xargs sha256sum) > "$1.before"
}
chk() { (cd "$1" && find . -type f | sort | xargs sha256sum) | diff -q "$1.before" - >/dev/null && echo unchanged || echo REWRITTEN; }

mk plain ''
"$RUSTFMT" plain/lib.rs 2> plain.err; s1=$?
echo "plain  mod foo;            : exit $s1, tree $(chk plain), stderr: $(cat plain.err)"

mk attr '#[cfg_attr(feature = "x", path = "bar.rs")]'
"$RUSTFMT" attr/lib.rs 2> attr.err; s2=$?
echo "with cfg_attr(path) cand.  : exit $s2, tree $(chk attr), stderr: '$(cat attr.err)'"

if [ $s2 = 1 ] && [ "$(chk attr)" = unchanged ] && [ -s attr.err ]; then exit 0; fi
echo "VIOLATION: foo.rs and foo/mod.rs both exist, yet no diagnostic, exit $s2 and the crate was rewritten"
exit 1
