#!/bin/bash
# C05 / last clause: "a file is only ever replaced by its complete formatted text".
# A run that FAILS while writing (exit 1, "Error writing files: ... File too large")
# leaves the source file truncated: FilesEmitter overwrites the original in place
# (fs::write = open(O_TRUNC) + write), so any error / kill in the middle of the
# write destroys the only copy of the text.
# Fault used here: RLIMIT_FSIZE (ulimit -f) smaller than the formatted file, with
# SIGXFSZ ignored so that write(2) returns EFBIG instead of killing the process.
. "$(dirname "$0")/common.sh"

# ~5.5 KB of valid code that needs reformatting, plus a second root.
i=0; while [ $i -lt 400 ]; do echo "fn  f$i( ){}"; i=$((i+1)); done > big.rs
printf 'fn  ok( ){}\n' > ok.rs
# what the complete formatted text would be
"$RUSTFMT" --emit stdout big.rs | sed '1,2d' > expected.txt   # drop the "path:\n\n" header
cp big.rs big.orig
orig_size=$(wc -c < big.rs); exp_size=$(wc -c < expected.txt)

(
  trap '' XFSZ          # ignored signals are inherited through exec
  ulimit -f 1           # 1 KiB file-size limit (bash: 1024-byte blocks)
  "$RUSTFMT" big.rs ok.rs
) > run.out 2> run.err
status=$?
echo "exit status : $status"
echo "stderr      : $(cat run.err)"
echo "big.rs      : was $orig_size bytes, complete formatted text is $exp_size bytes, now $(wc -c < big.rs) bytes"
echo "last bytes  : $(tail -c 30 big.rs | tr '\n' '|')"

if cmp -s big.rs big.orig; then echo "big.rs kept its exact bytes"; exit 0; fi
if cmp -s big.rs expected.txt; then echo "big.rs holds its complete formatted text"; exit 0; fi
echo "VIOLATION: the run failed (exit $status) and big.rs is neither its original bytes nor its complete formatted text (truncated, $(($exp_size - $(wc -c < big.rs))) bytes of source lost)"
exit 1
