#!/bin/bash
# Last clause of C05 ("only ever replaced by its complete formatted text"), successful run:
# a rustfmt.toml found next to the input that says emit_mode = "coverage" makes the formatter
# produce the coverage text (comments replaced by X), but the Session's emitter was created
# from the command-line configuration (files), so that text is written over the source file.
. "$(dirname "$0")/common.sh"
printf 'fn  a( ){ let x = 1; }\n// an important comment\n' > a.rs
echo 'emit_mode = "coverage"' > rustfmt.toml
"$RUSTFMT" a.rs; status=$?
echo "exit status: $status; a.rs now:"; cat a.rs
if grep -q 'an important comment' a.rs; then exit 0; fi
echo "VIOLATION: the comment text in a.rs was replaced by X characters"
exit 1
