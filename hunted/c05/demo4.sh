#!/bin/bash
# C05 with --backup: FilesWithBackupEmitter renames the original away (foo.rs -> foo.bk)
# BEFORE the new text is renamed into place (foo.tmp -> foo.rs). If the run dies or the
# second rename fails in that window, foo.rs does not exist any more although the run
# reports failure (exit 1). Emulated with strace fault injection on the 2nd rename(2).
# Needs strace with ptrace permission; exits 0 (cannot show) when that is unavailable.
. "$(dirname "$0")/common.sh"
command -v strace >/dev/null || { echo "strace not available - cannot emulate the crash window"; exit 0; }

printf 'fn  a( ){}\n' > a.rs; cp a.rs a.orig
strace -f -o trace.txt -e trace=rename,renameat,renameat2 \
       -e inject=rename,renameat,renameat2:error=EIO:when=2 \
       "$RUSTFMT" --backup a.rs 2> err.txt
status=$?
grep -q INJECTED trace.txt || { echo "fault injection did not trigger"; cat err.txt; exit 0; }
echo "exit status: $status; stderr: $(cat err.txt)"
echo "directory now: $(ls | grep '^a\.' | tr '\n' ' ')"
if [ -f a.rs ] && { cmp -s a.rs a.orig || [ "$(cat a.rs)" = "fn a() {}" ]; }; then echo "a.rs is intact"; exit 0; fi
echo "VIOLATION: failing run (exit $status) and a.rs is gone (only a.bk / a.tmp are left)"
exit 1
