#!/bin/bash
# C05, fault kind "unclosed delimiter" at large nesting depth: 100000 unclosed `(` make the
# rustc lexer/parser recurse until the main thread's stack overflows. rustfmt dies with
# SIGABRT (status 134) instead of 1 and the root named after it is never formatted.
# (rustc itself overflows on the same file; rustfmt runs the parser on the 8 MiB main thread
# with no guard, so the fault is not contained the way other parser failures are.)
. "$(dirname "$0")/common.sh"
python3 -c "open('deep.rs','w').write('fn main() { let x = ' + '('*100000 + '1\n')" 2>/dev/null || \
  { printf 'fn main() { let x = ' > deep.rs; head -c 100000 /dev/zero | tr '\0' '(' >> deep.rs; printf '1\n' >> deep.rs; }
printf 'fn  ok( ){}\n' > ok.rs
"$RUSTFMT" deep.rs ok.rs > out.txt 2>&1; status=$?
echo "exit status: $status; last output line: $(tail -1 out.txt | cut -c1-100)"
echo "ok.rs: $(cat ok.rs)"
if [ $status = 1 ] && [ "$(cat ok.rs)" = "fn ok() {}" ]; then exit 0; fi
echo "VIOLATION: exit status is $status (not 1) and the other root ok.rs was not formatted"
exit 1
