# sourced by the demo scripts: $1 = directory holding the built binaries
BIN=${1:-/tmp/wt/c05x/target/debug}
BIN=$(cd "$BIN" && pwd)
# the binaries link against the toolchain's librustc_driver
ROOT=$(cd "$BIN/../.." && pwd)
SYSROOT=$(cd "$ROOT" && rustc --print sysroot 2>/dev/null)
[ -n "$SYSROOT" ] && export LD_LIBRARY_PATH="$SYSROOT/lib${LD_LIBRARY_PATH:+:$LD_LIBRARY_PATH}"
RUSTFMT="$BIN/rustfmt"
WORK=$(mktemp -d)
trap 'rm -rf "$WORK"' EXIT
cd "$WORK" || exit 2
