#!/bin/bash
# C18 / --all: two different local path dependencies that share a package NAME
# (util 0.1.0 in ext1/, util 0.2.0 in ext2/): only the first one is formatted.
. "$(dirname "$0")/common.sh"
cd "$T"; mkdir ws ext1 ext2
printf '[workspace]\nmembers = ["a", "b"]\nresolver = "2"\n' > ws/Cargo.toml
mkpkg ws/a a 0.1.0 2021 '[dependencies]
util = { path = "../../ext1/util", version = "0.1" }'
mkpkg ws/b b 0.1.0 2018 '[dependencies]
util = { path = "../../ext2/util", version = "0.2" }'
mkpkg ext1/util util 0.1.0 2021 ''
mkpkg ext2/util util 0.2.0 2015 ''
cd ws
echo "== the workspace is legal: cargo build"
cargo build --offline 2>&1 | tail -1
echo "== cargo fmt --all"
cargo-fmt --all; st=$?
echo "exit status: $st"
sed "s#$T##g" "$FMTLOG"
bad=0
for f in ws/a ws/b ext1/util ext2/util; do
  if formatted "$T/$f/src/lib.rs"; then echo "formatted:     $f/src/lib.rs"
  else echo "NOT formatted: $f/src/lib.rs"; bad=1; fi
done
if [ $bad = 1 ] && [ $st = 0 ]; then
  echo "VIOLATION: --all skipped a local path dependency (and still exited 0)"; exit 1
fi
echo "property holds"; exit 0
