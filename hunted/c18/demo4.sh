#!/bin/bash
# C18 / --all and path dependencies that live in ANOTHER workspace:
#  (a) every member of that other workspace is formatted, also packages nothing depends on
#  (b) if the dependency merely sits below a foreign workspace root that does not list it,
#      cargo fmt --all fails outright although `cargo build` is happy.
. "$(dirname "$0")/common.sh"
cd "$T"; mkdir ws ext
printf '[workspace]\nmembers = ["a"]\nresolver = "2"\n' > ws/Cargo.toml
mkpkg ws/a a 0.1.0 2021 '[dependencies]
util = { path = "../../ext/util" }'
printf '[workspace]\nmembers = ["util", "other"]\nresolver = "2"\n' > ext/Cargo.toml
mkpkg ext/util util 0.1.0 2021 ''
mkpkg ext/other other 0.1.0 2015 ''
bad=0
echo "== (a) cargo fmt --all"
( cd ws && cargo-fmt --all ); echo "exit $?"; sed "s#$T##g" "$FMTLOG"
if formatted ext/other/src/lib.rs; then echo "ext/other (not a member, not a dependency of anything selected) was formatted"; bad=1; fi
echo "== (b) the foreign workspace does not list util"
printf '[workspace]\nmembers = ["other"]\nresolver = "2"\n' > ext/Cargo.toml
( cd ws && cargo build --offline 2>&1 | tail -1 )
( cd ws && cargo-fmt --all 2>&1 | sed 3q | sed "s#$T##g"; exit ${PIPESTATUS[0]} ); st=$?
echo "exit $st"
[ $st = 0 ] || bad=1
if [ $bad = 1 ]; then echo "VIOLATION (see notes: (a) is behaviour the upstream unit tests pin down)"; exit 1; fi
echo "property holds"; exit 0
