#!/bin/bash
# C18 / unknown package: `cargo fmt --all -p nosuch` does not report the unknown package;
# -p is silently dropped, everything is formatted and the exit status is 0.
. "$(dirname "$0")/common.sh"
cd "$T"; mkdir ws
printf '[workspace]\nmembers = ["a", "b"]\nresolver = "2"\n' > ws/Cargo.toml
mkpkg ws/a a 0.1.0 2021 ''
mkpkg ws/b b 0.1.0 2018 ''
cd ws
echo "== cargo fmt -p nosuch   (reference)"
cargo-fmt -p nosuch 2>&1 | sed 1q; echo "exit ${PIPESTATUS[0]}"
echo "== cargo fmt --all -p nosuch"
cargo-fmt --all -p nosuch; st=$?
echo "exit $st; rustfmt runs: $(wc -l < "$FMTLOG")"
if [ $st = 0 ] || [ -s "$FMTLOG" ]; then
  echo "VIOLATION: unknown package accepted, files were formatted"; exit 1
fi
echo "property holds"; exit 0
