# sourced by the demos: $1 = directory holding the built binaries
BIN=$(cd "${1:?usage: $0 <dir with cargo-fmt and rustfmt>}" && pwd)
HERE=$(cd "$(dirname "$0")" && pwd)
# the binaries are dynamically linked against the toolchain's librustc_driver
SYSROOT=$(cd "$HERE/.." && rustc --print sysroot 2>/dev/null)
export LD_LIBRARY_PATH="$SYSROOT/lib${LD_LIBRARY_PATH:+:$LD_LIBRARY_PATH}"
export PATH="$BIN:$PATH"
T=$(mktemp -d); trap 'rm -rf "$T"' EXIT
# a rustfmt wrapper that records each invocation and then runs the real rustfmt
export FMTLOG="$T/rustfmt.log"; : > "$FMTLOG"
cat > "$T/rustfmt-logged" <<EOS
#!/bin/sh
echo "rustfmt \$*" >> "$FMTLOG"
exec "$BIN/rustfmt" "\$@"
EOS
chmod +x "$T/rustfmt-logged"
export RUSTFMT="$T/rustfmt-logged"
UGLY='pub fn  f( ){}'
mkpkg() { # dir name version edition [extra toml]
  mkdir -p "$1/src"
  printf '[package]\nname = "%s"\nversion = "%s"\nedition = "%s"\n%s\n' "$2" "$3" "$4" "$5" > "$1/Cargo.toml"
  echo "$UGLY" > "$1/src/lib.rs"
}
formatted() { [ "$(cat "$1")" = 'pub fn f() {}' ]; }
