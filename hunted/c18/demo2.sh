#!/bin/bash
# C18 / current package: when the manifest that selects the "current package" is the
# manifest of a VIRTUAL workspace with >= 2 members, cargo fmt finds no targets:
#   (a) cargo fmt --manifest-path <ws>/Cargo.toml        (from anywhere, even from <ws>)
#   (b) cargo fmt   with cwd = <ws>/docs (a non-member directory inside the workspace)
# while plain `cargo fmt` with cwd = <ws> formats every member.
. "$(dirname "$0")/common.sh"
cd "$T"; mkdir -p ws/docs
printf '[workspace]\nmembers = ["a", "b"]\nresolver = "2"\n' > ws/Cargo.toml
mkpkg ws/a a 0.1.0 2021 ''
mkpkg ws/b b 0.1.0 2018 ''
bad=0
try() { # cwd args... ; returns cargo fmt's exit status
  local cwd=$1 st; shift
  echo "$UGLY" > "$T/ws/a/src/lib.rs"; echo "$UGLY" > "$T/ws/b/src/lib.rs"; : > "$FMTLOG"
  ( cd "$cwd" && cargo-fmt "$@" >"$T/out" 2>&1 ); st=$?
  echo "cwd=${cwd#$T}  cargo fmt $*  -> exit $st, rustfmt invocations: $(wc -l < "$FMTLOG"), first line of output: $(sed 1q "$T/out")"
  return $st
}
echo "== reference: cwd = workspace root, no flags: both members are formatted"
try "$T/ws" || bad=1
echo "== cargo itself accepts the manifest"
cargo metadata --offline --no-deps --format-version 1 --manifest-path "$T/ws/Cargo.toml" >/dev/null && echo "cargo metadata --manifest-path ws/Cargo.toml: ok"
echo "== (a) --manifest-path pointing at that manifest"
try "$T/ws" --manifest-path Cargo.toml || bad=1
try "$T"    --manifest-path "$T/ws/Cargo.toml" || bad=1
echo "== (b) cwd = a non-member directory inside the workspace"
try "$T/ws/docs" || bad=1
if [ $bad = 1 ]; then echo "VIOLATION: a usable manifest path / a working directory inside the workspace is rejected with 'Failed to find targets'"; exit 1; fi
echo "property holds"; exit 0
