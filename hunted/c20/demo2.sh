#!/bin/bash
# C20 demo 2: a SINGLE file whose own name ends in `.tmp` or `.bk` (given on the command line or
# through `#[path = "..."]`).  Path::with_extension *replaces* the extension, so the protocol's
# scratch name / backup name is the file itself:
#   x.bk  : write x.tmp; rename(x.bk, x.bk) = no-op; rename(x.tmp, x.bk) replaces the original.
#           exit 0, the original is nowhere.
#   x.tmp : fs::write(x.tmp) truncates and overwrites the original in place (a crash here leaves a
#           partial file and no backup); rename(x.tmp, x.bk); rename(x.tmp, x.tmp) -> ENOENT.
#           exit 1, the file is gone and x.bk holds the *formatted* text.
# (Same root line as F16 -- with_extension -- but no second file is involved: one rewrite of one
#  file loses it.)
#
# usage: demo2.sh <dir with the built binaries>      exit 1 = property violated, 0 = holds
BIN=${1:?usage: demo2.sh BIN_DIR}
R=$BIN/rustfmt
export LD_LIBRARY_PATH=${LD_LIBRARY_PATH:+$LD_LIBRARY_PATH:}$(cd "$BIN/../.." && rustc --print sysroot 2>/dev/null)/lib
TOP=$(mktemp -d)
violated=0
U='pub fn  f( ){let x=1;}\n'

report() { # NAME DIR ORIG RC
  local where=none f
  for f in "$2"/*; do [ -f "$f" ] && [ "$f" != "$3" ] && cmp -s "$f" "$3" && where=$(basename "$f"); done
  echo "[$1] rustfmt exit=$4; directory now: $(cd "$2"; ls | grep -v '^orig$' | tr '\n' ' '); original found in: $where"
  if [ $where = none ]; then
    for f in "$2"/*; do [ "$f" != "$3" ] && [ -f "$f" ] && echo "    $(basename $f): $(tr '\n' '|' < $f)"; done
    echo "  VIOLATION: the original bytes are in no file"; violated=1
  fi
}

# 1. file named x.bk on the command line
D=$TOP/1; mkdir -p $D; printf "$U" > $D/x.bk; cp $D/x.bk $D/orig
"$R" --backup $D/x.bk; report "x.bk as input" $D $D/orig $?

# 2. file named x.tmp on the command line
D=$TOP/2; mkdir -p $D; printf "$U" > $D/x.tmp; cp $D/x.tmp $D/orig
"$R" --backup $D/x.tmp 2>/dev/null; report "x.tmp as input" $D $D/orig $?

# 3. generated module kept in a .tmp file, reached through #[path]
D=$TOP/3; mkdir -p $D; printf '#[path = "gen.tmp"]\nmod gen;\n' > $D/lib.rs; printf "$U" > $D/gen.tmp; cp $D/gen.tmp $D/orig
"$R" --backup $D/lib.rs 2>/dev/null; report '#[path = "gen.tmp"] mod gen;' $D $D/orig $?

# 4. crash right after the first operation of the rewrite of x.tmp (the open with O_TRUNC):
#    the file itself is already empty and there is no backup yet.
if command -v strace >/dev/null; then
  D=$TOP/4; mkdir -p $D; printf "$U" > $D/x.tmp; cp $D/x.tmp $D/orig
  strace -f -o /dev/null -e trace=write -P $D/x.tmp -e inject=write:signal=SIGKILL "$R" --backup $D/x.tmp 2>/dev/null
  rc=$?
  echo "    (x.tmp after the crash: $(wc -c < $D/x.tmp) bytes)"
  report "x.tmp, crash between open(O_TRUNC) and write" $D $D/orig $rc
fi

rm -rf "$TOP"
if [ $violated = 1 ]; then echo "RESULT: C20 violated"; exit 1; fi
echo "RESULT: C20 holds"; exit 0
