#!/bin/bash
# C20 demo 1: a file that is reached by TWO inputs of one `rustfmt --backup` run (once as an
# out-of-line module of an earlier input, once again through a later input) is rewritten twice
# whenever the second formatting differs from the first.  The second rewrite renames the
# already-rewritten file over the .bk of the first rewrite: after a successful run (exit 0)
# the original is in neither F nor F.bk.
#
# usage: demo.sh <dir with the built binaries>      exit 1 = property violated, 0 = holds
BIN=${1:?usage: demo.sh BIN_DIR}
R=$BIN/rustfmt
export LD_LIBRARY_PATH=${LD_LIBRARY_PATH:+$LD_LIBRARY_PATH:}$(cd "$BIN/../.." && rustc --print sysroot 2>/dev/null)/lib
TOP=$(mktemp -d)
violated=0

# check NAME FILE ORIGINAL RC
check() {
  local name=$1 f=$2 orig=$3 rc=$4 bk=${2%.*}.bk
  local where=none
  cmp -s "$f" "$orig" && where=file
  [ -f "$bk" ] && cmp -s "$bk" "$orig" && where=bk
  echo "[$name] rustfmt exit=$rc, original found in: $where"
  if [ "$where" = none ]; then
    echo "  VIOLATION: run succeeded, but neither $(basename $f) nor $(basename $bk) holds the original"
    echo "  original : $(tr '\n' '|' < "$orig")"
    echo "  $(basename $f) : $(tr '\n' '|' < "$f")"
    [ -f "$bk" ] && echo "  $(basename $bk) : $(tr '\n' '|' < "$bk")"
    violated=1
  fi
}

# --- variant A: `rustfmt --backup src/*.rs`, no configuration file at all -------------------
# lib.rs carries a crate-level `#![rustfmt::skip::macros(vec)]`; it applies to util.rs when
# util.rs is formatted as a module of lib.rs, but not when util.rs is formatted as an input.
D=$TOP/A; mkdir -p $D/src
printf '#![rustfmt::skip::macros(vec)]\nmod util;\n' > $D/src/lib.rs
printf 'pub fn  f( )->Vec<u8>{vec![ 1,2 ]}\n' > $D/src/util.rs
cp $D/src/util.rs $D/util.orig
"$R" --backup $D/src/lib.rs $D/src/util.rs; rc=$?       # what the shell makes of src/*.rs
check "A: lib.rs then util.rs, crate-level skip::macros" $D/src/util.rs $D/util.orig $rc

# --- variant A': same tree, the other order on the command line: property holds -------------
D=$TOP/A2; mkdir -p $D/src
printf '#![rustfmt::skip::macros(vec)]\nmod util;\n' > $D/src/lib.rs
printf 'pub fn  f( )->Vec<u8>{vec![ 1,2 ]}\n' > $D/src/util.rs
cp $D/src/util.rs $D/util.orig
"$R" --backup $D/src/util.rs $D/src/lib.rs; rc=$?
check "A': util.rs then lib.rs (control)" $D/src/util.rs $D/util.orig $rc

# --- variant B: nested rustfmt.toml (e.g. `git ls-files '*.rs' | xargs rustfmt --backup`) ----
# each INPUT gets the configuration of its own directory; a module gets its parent's.
D=$TOP/B; mkdir -p $D/src/sub
printf 'mod sub;\n' > $D/src/lib.rs
printf 'pub mod x;\n' > $D/src/sub/mod.rs
printf 'pub fn  f( ){let x=1;}\n' > $D/src/sub/x.rs
printf 'hard_tabs = true\n' > $D/src/sub/rustfmt.toml
cp $D/src/sub/x.rs $D/x.orig
"$R" --backup $D/src/lib.rs $D/src/sub/mod.rs $D/src/sub/x.rs; rc=$?
check "B: nested rustfmt.toml" $D/src/sub/x.rs $D/x.orig $rc

# --- variant C: lib.rs and main.rs of one package share `mod common;` ------------------------
# exactly the command `cargo fmt -- --backup` issues; no attribute, no configuration: the
# formatting of common.rs is simply not a fixed point after one pass (leading blank line
# followed by an indented item).
D=$TOP/C; mkdir -p $D/src
printf 'mod common;\n' > $D/src/lib.rs
printf 'mod common;\nfn main() {}\n' > $D/src/main.rs
printf '\n pub fn f() {}\n' > $D/src/common.rs
cp $D/src/common.rs $D/common.orig
"$R" --edition 2021 --backup $D/src/lib.rs $D/src/main.rs; rc=$?
check "C: lib.rs + main.rs share common.rs" $D/src/common.rs $D/common.orig $rc

# --- variant D: the same file named twice on the command line -------------------------------
D=$TOP/D; mkdir -p $D
printf '\n pub fn f() {}\n' > $D/a.rs
cp $D/a.rs $D/a.orig
"$R" --backup $D/a.rs $D/a.rs; rc=$?
check "D: a.rs a.rs" $D/a.rs $D/a.orig $rc

rm -rf "$TOP"
if [ $violated = 1 ]; then echo "RESULT: C20 violated"; exit 1; fi
echo "RESULT: C20 holds"; exit 0
