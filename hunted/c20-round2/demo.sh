#!/bin/bash
# C20 violation: a module file that is a symlink to another source file which is
# rewritten later in the same `rustfmt --backup` run.  The run exits 0 and the
# original bytes of the symlink's target exist nowhere afterwards.
# usage: demo.sh <dir with built binaries>
BIN=${1:?usage: demo.sh BIN_DIR}
BIN=$(cd "$BIN" && pwd)
if command -v rustc >/dev/null 2>&1; then
    SYSROOT=$(cd "$BIN/../.." 2>/dev/null && rustc --print sysroot 2>/dev/null)
    [ -n "$SYSROOT" ] && export LD_LIBRARY_PATH="$SYSROOT/lib${LD_LIBRARY_PATH:+:$LD_LIBRARY_PATH}"
fi
T=$(mktemp -d)
trap 'rm -rf "$T"' EXIT
violated=0

orig_somewhere() { # $1 = file with the original bytes, rest = candidates
    local o=$1; shift
    for c in "$@"; do
        [ -e "$c" ] && cmp -s "$o" "$c" && return 0
    done
    return 1
}

echo "=== layout A: one input, one crate; src/a_alias.rs -> b_real.rs (symlink), both are modules"
mkdir -p "$T/A/src"; cd "$T/A"
printf 'pub fn  util( ) { }\n' > src/b_real.rs
ln -s b_real.rs src/a_alias.rs
printf 'mod a_alias;\nmod b_real;\nfn main() {}\n' > src/main.rs
cp src/b_real.rs "$T/A.orig"
"$BIN/rustfmt" --backup src/main.rs; rc=$?
echo "exit status: $rc"; ls -l src
if [ $rc -eq 0 ]; then
    if ! orig_somewhere "$T/A.orig" src/b_real.rs src/b_real.bk src/a_alias.rs src/a_alias.bk; then
        echo "VIOLATION(A): exit 0, but the original of src/b_real.rs is in none of b_real.rs, b_real.bk, a_alias.rs, a_alias.bk"
        violated=1
    fi
    [ -e src/b_real.bk ] || echo "  (src/b_real.rs was rewritten but has no .bk at all)"
fi

echo
echo "=== layout B: two inputs; crate1/src/util.rs -> ../../common/util.rs, common/util.rs named too"
mkdir -p "$T/B/crate1/src" "$T/B/common"; cd "$T/B"
printf 'pub fn  util( ) { }\n' > common/util.rs
ln -s ../../common/util.rs crate1/src/util.rs
printf 'mod util;\nfn main() {}\n' > crate1/src/main.rs
cp common/util.rs "$T/B.orig"
"$BIN/rustfmt" --backup crate1/src/main.rs common/util.rs; rc=$?
echo "exit status: $rc"; ls -l crate1/src common
if [ $rc -eq 0 ]; then
    if ! orig_somewhere "$T/B.orig" common/util.rs common/util.bk crate1/src/util.rs crate1/src/util.bk; then
        echo "VIOLATION(B): exit 0, but the original of common/util.rs is in neither common/util.rs nor common/util.bk (nor in crate1/src/util.{rs,bk})"
        violated=1
    fi
fi

echo
if [ $violated -eq 1 ]; then echo "C20 VIOLATED"; exit 1; fi
echo "C20 holds for these layouts"; exit 0
