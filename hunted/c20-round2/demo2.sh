#!/bin/bash
# BORDERLINE (two rustfmt processes issued by ONE `cargo fmt -- --backup`):
# a module shared by two targets of one package that have different editions.
# cargo-fmt runs one rustfmt per edition; the second process re-formats the
# shared file in the other style edition and its rename(file, file.bk) replaces
# the original kept by the first process.  Exit 0, original nowhere.
BIN=${1:?usage: demo2.sh BIN_DIR}
BIN=$(cd "$BIN" && pwd)
SYSROOT=$(cd "$BIN/../.." 2>/dev/null && rustc --print sysroot 2>/dev/null)
[ -n "$SYSROOT" ] && export LD_LIBRARY_PATH="$SYSROOT/lib${LD_LIBRARY_PATH:+:$LD_LIBRARY_PATH}"
T=$(mktemp -d); trap 'rm -rf "$T"' EXIT
mkdir -p "$T/p/src"; cd "$T/p"
cat > Cargo.toml <<'EOT'
[package]
name = "p"
version = "0.1.0"
edition = "2021"

[lib]
path = "src/lib.rs"

[[bin]]
name = "p"
path = "src/main.rs"
edition = "2024"
EOT
printf 'mod shared;\n' > src/lib.rs
printf 'mod shared;\nfn main() {}\n' > src/main.rs
printf 'use std::{ a10, a9 , A};\nfn  f( ) { }\n' > src/shared.rs
cp src/shared.rs "$T/orig"
RUSTFMT="$BIN/rustfmt" "$BIN/cargo-fmt" fmt -v -- --backup; rc=$?
echo "cargo fmt exit status: $rc"
echo "--- src/shared.rs:"; cat src/shared.rs
echo "--- src/shared.bk:"; cat src/shared.bk
echo "--- original was:";  cat "$T/orig"
if [ $rc -eq 0 ] && ! cmp -s "$T/orig" src/shared.bk && ! cmp -s "$T/orig" src/shared.rs; then
    echo "VIOLATION (borderline, see notes.md): shared.bk holds the edition-2021 intermediate, the original is gone"
    exit 1
fi
exit 0
