#!/bin/bash
# MINOR / contrived: a pre-existing F.tmp that is another name of F itself
# (hard link, or symlink to F).  fs::write(F.tmp) opens it O_TRUNC without
# O_EXCL/O_NOFOLLOW and so truncates and overwrites the original in place;
# rename(F, F.bk) then stores the *formatted* text as the backup.  Exit 0.
BIN=${1:?usage: demo3.sh BIN_DIR}
BIN=$(cd "$BIN" && pwd)
SYSROOT=$(cd "$BIN/../.." 2>/dev/null && rustc --print sysroot 2>/dev/null)
[ -n "$SYSROOT" ] && export LD_LIBRARY_PATH="$SYSROOT/lib${LD_LIBRARY_PATH:+:$LD_LIBRARY_PATH}"
T=$(mktemp -d); trap 'rm -rf "$T"' EXIT
v=0
for kind in hardlink symlink; do
    mkdir "$T/$kind"; cd "$T/$kind"
    printf 'fn  main( ) { }\n' > a.rs; cp a.rs ../orig.$kind
    if [ $kind = hardlink ]; then ln a.rs a.tmp; else ln -s a.rs a.tmp; fi
    "$BIN/rustfmt" --backup a.rs; rc=$?
    echo "[$kind] exit $rc"; ls -l
    found=0
    for c in a.rs a.bk; do [ -f "$c" ] && cmp -s ../orig.$kind "$c" 2>/dev/null && found=1; done
    if [ $found -eq 0 ]; then echo "[$kind] VIOLATION: original in neither a.rs nor a.bk (a.bk: $(cat a.bk 2>&1))"; v=1; fi
done
exit $v
