#!/bin/bash
# C13 / ignore clause: a file matched by `ignore` is formatted anyway when the module tree reaches
# it through a #[path] containing `..` or `./` -- the ignore matcher is applied to the path as
# spelled (<root dir>/src/../shared/gen.rs), not to the file.  (Kin to the known F6 -- spelling vs
# file -- but a different clause and different code: src/ignore_path.rs.)  exit 1 = violated.
. "$(dirname "$0")/common.sh"
bad=0
try() { # $1 = ignore pattern, $2 = path attribute
    rm -rf proj; mkdir -p proj/src proj/shared
    printf 'ignore = ["%s"]\n' "$1" > proj/rustfmt.toml
    printf '#[path = "%s"]\nmod gen;\nfn root() {}\n' "$2" > proj/src/lib.rs
    printf 'fn  ignored( ) { }\n' > proj/shared/gen.rs
    cp proj/shared/gen.rs proj/src/gen.rs
    "$RUSTFMT" proj/src/lib.rs; rc=$?
    target=proj/src/$2
    if grep -q 'fn ignored() {}' "$target"; then
        echo "VIOLATION: ignore=[\"$1\"]  #[path=\"$2\"]  -> ignored file was formatted (exit $rc)"; bad=1
    else
        echo "ok:        ignore=[\"$1\"]  #[path=\"$2\"]  -> left alone (exit $rc)"
    fi
}
try "shared/gen.rs" "../shared/gen.rs"
try "/shared/"      "../shared/gen.rs"
try "src/gen.rs"    "./gen.rs"
try "src/gen.rs"    "../src/gen.rs"
echo "--- controls (patterns without a directory anchor, or a plain spelling, do work)"
try "gen.rs"        "../shared/gen.rs"
try "shared"        "../shared/gen.rs"
try "src/gen.rs"    "gen.rs"
[ $bad -eq 0 ] && echo "property holds"
exit $bad
