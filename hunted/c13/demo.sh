#!/bin/bash
# C13 / skip clause + "no other file is written": a module file that opts out with
# #![rustfmt::skip] is OVERWRITTEN WITH THE TEXT OF THE DECLARING FILE when it is named a
# second time by a cfg_attr(path) declaration.  exit 1 = property violated, 0 = holds.
. "$(dirname "$0")/common.sh"
bad=0

echo "### variant A: one declaration, two cfg_attr(path) arms naming the same skipped file"
mkdir a && cd a
cat > lib.rs <<'EOT'
#[cfg_attr(target_os = "linux", path = "unix.rs")]
#[cfg_attr(target_os = "macos", path = "unix.rs")]
#[cfg_attr(windows, path = "windows.rs")]
mod imp;
fn root() {}
EOT
printf '#![rustfmt::skip]\nfn  hand_aligned( ) { }\n' > unix.rs
printf 'fn windows() {}\n' > windows.rs
cp unix.rs ../a.unix.orig
"$RUSTFMT" -v lib.rs; echo "rustfmt exit code: $?"
if ! cmp -s unix.rs ../a.unix.orig; then
    echo "VIOLATION: skipped file unix.rs was rewritten; it now holds:"; sed 's/^/    | /' unix.rs
    bad=1
fi
cd ..

echo "### variant B: plain 'mod db;' (db.rs skipped) + a second 'mod db;' with cfg_attr(path) to another file"
mkdir b && cd b
cat > lib.rs <<'EOT'
#[cfg(not(test))]
mod db;
#[cfg(test)]
#[cfg_attr(test, path = "db_mock.rs")]
mod db;
fn root() {}
EOT
printf '#![rustfmt::skip]\nfn  hand_aligned( ) { }\n' > db.rs
printf 'fn mock() {}\n' > db_mock.rs
cp db.rs ../b.db.orig
"$RUSTFMT" lib.rs; echo "rustfmt exit code: $?"
if ! cmp -s db.rs ../b.db.orig; then
    echo "VIOLATION: skipped file db.rs was rewritten; it now holds:"; sed 's/^/    | /' db.rs
    bad=1
fi
cd ..

echo "### variant C: '#[path] mod' of a skipped file, then a cfg_attr(path) naming it again; --check reports a diff for the skipped file"
mkdir c && cd c
cat > lib.rs <<'EOT'
#[path = "tables.rs"]
mod a_tables;
#[cfg_attr(feature = "x", path = "tables.rs")]
mod other;
fn root() {}
EOT
printf '#![rustfmt::skip]\nfn  hand_aligned( ) { }\n' > tables.rs
printf 'fn other() {}\n' > other.rs
out=$("$RUSTFMT" --color never --check lib.rs 2>&1); rc=$?
echo "rustfmt --check exit code: $rc (every non-skipped file is already formatted, so 0 is expected)"
if [ $rc -ne 0 ]; then echo "$out" | head -12; echo "VIOLATION: --check wants to rewrite the skipped file tables.rs"; bad=1; fi
cd ..

[ $bad -eq 0 ] && echo "property holds"
exit $bad
