#!/bin/bash
# C13 / cfg_if!/cfg_match! bodies: a module declared in a cfg_if! that sits directly inside another
# cfg_if!/cfg_match! arm (or a cfg_match! inside a cfg_if!) is never discovered, its file is silently
# not formatted, exit code 0.  exit 1 = violated.
. "$(dirname "$0")/common.sh"
bad=0
cat > lib.rs <<'EOT'
cfg_if::cfg_if! {
    if #[cfg(unix)] {
        cfg_if::cfg_if! {
            if #[cfg(target_os = "linux")] {
                mod linux;
            } else {
                mod other_unix;
            }
        }
        mod unix_common;
    } else {
        std::cfg_match! {
            windows => { mod windows; }
            _ => { mod fallback; }
        }
    }
}
fn root() {}
EOT
for m in linux other_unix unix_common windows fallback; do printf 'fn  f( ) { }\n' > $m.rs; done
"$RUSTFMT" -v lib.rs; echo "rustfmt exit code: $?"
for m in linux other_unix unix_common windows fallback; do
    if grep -q 'fn  f( )' $m.rs; then echo "VIOLATION: $m.rs is a module of the crate but was not formatted"; bad=1; else echo "ok: $m.rs formatted"; fi
done
[ $bad -eq 0 ] && echo "property holds"
exit $bad
