#!/bin/bash
# C13 / "an ambiguous or missing module is an error rather than a guess" + "no other file is
# written": inside a non-mod.rs file y.rs, `mod z { mod w; }` must resolve to y/z/w.rs.  When y/
# exists but y/z/ does not, rustfmt silently drops the `z` component and formats the decoy
# y/w.rs instead (rustc: E0583 file not found).  exit 1 = violated.
. "$(dirname "$0")/common.sh"
bad=0
mkdir -p y
printf 'mod y;\nfn root() {}\n' > lib.rs
printf 'mod z {\n    mod w;\n}\nfn y() {}\n' > y.rs
printf 'fn  decoy_nobody_declares( ) { }\n' > y/w.rs
cp y/w.rs ../w.orig
"$RUSTFMT" -v lib.rs; rc=$?; echo "rustfmt exit code: $rc"
if ! cmp -s y/w.rs ../w.orig; then
    echo "VIOLATION: y/w.rs is declared by no module (y::z::w lives at y/z/w.rs, which does not exist) but was rewritten:"
    sed 's/^/    | /' y/w.rs; bad=1
fi
if [ $rc -eq 0 ]; then echo "VIOLATION: missing module y::z::w was not reported as an error"; bad=1; fi

echo "### same with #[path] inside the inline module: y::z::w must be y/z/x.rs, rustfmt takes y/x.rs"
mkdir ../w2 && cd ../w2 && mkdir y
printf 'mod y;\nfn root() {}\n' > lib.rs
printf 'mod z {\n    #[path = "x.rs"]\n    mod w;\n}\n' > y.rs
printf 'fn  decoy( ) { }\n' > y/x.rs
"$RUSTFMT" lib.rs; rc=$?; echo "rustfmt exit code: $rc"
if grep -q 'fn decoy() {}' y/x.rs; then echo "VIOLATION: decoy y/x.rs rewritten"; bad=1; fi

echo "### control: with y/z/ present the right file is used and the decoy left alone"
mkdir ../w3 && cd ../w3 && mkdir -p y/z
printf 'mod y;\nfn root() {}\n' > lib.rs
printf 'mod z {\n    mod w;\n}\n' > y.rs
printf 'fn  decoy( ) { }\n' > y/w.rs
printf 'fn  real( ) { }\n' > y/z/w.rs
"$RUSTFMT" lib.rs; echo "rustfmt exit code: $?"; head -3 y/w.rs y/z/w.rs
[ $bad -eq 0 ] && echo "property holds"
exit $bad
