#!/bin/bash
# C13 / "resolved by the language's rules", decoy clause: for a CRATE ROOT src/lib.rs, `mod util;`
# is src/util.rs whatever else is in the tree.  If a directory src/lib/ happens to exist, rustfmt
# treats the root as a non-root module named `lib`, formats the decoy src/lib/util.rs and leaves the
# real module src/util.rs unformatted.  exit 1 = violated.
. "$(dirname "$0")/common.sh"
bad=0
mkdir -p src/lib
printf 'mod util;\nfn root() {}\n' > src/lib.rs
printf 'fn  real_module( ) { }\n' > src/util.rs
printf 'fn  decoy( ) { }\n' > src/lib/util.rs
"$RUSTFMT" -v src/lib.rs; echo "rustfmt exit code: $?"
if grep -q 'fn  real_module' src/util.rs; then echo "VIOLATION: the module file src/util.rs (crate::util) was NOT formatted"; bad=1; fi
if grep -q 'fn decoy() {}' src/lib/util.rs; then echo "VIOLATION: the undeclared decoy src/lib/util.rs WAS formatted"; bad=1; fi
[ $bad -eq 0 ] && echo "property holds"
exit $bad
