# sourced by the demo scripts: $1 = directory holding the built binaries
BIN=${1:?usage: $0 <dir with rustfmt binary, e.g. /tmp/wt/c13x/target/debug>}
BIN=$(cd "$BIN" && pwd)
RUSTFMT=$BIN/rustfmt
if [ -z "${LD_LIBRARY_PATH:-}" ]; then
    WT=$(cd "$BIN/../.." && pwd)
    LD_LIBRARY_PATH=$(cd "$WT" && rustc --print sysroot)/lib
    export LD_LIBRARY_PATH
fi
T=$(mktemp -d)
trap 'rm -rf "$T"' EXIT
# isolate from any user / parent-directory configuration
export HOME=$T/home XDG_CONFIG_HOME=$T/home/.config
mkdir -p "$HOME" "$T/w"
: > "$T/rustfmt.toml"
cd "$T/w"
