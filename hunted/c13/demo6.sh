#!/bin/bash
# C13 (debatable reading, see notes.md): the children of a module FILE that carries
# #![rustfmt::skip] are silently left unformatted when that file is a child, but are formatted when
# that file is the root -- and the children of an ignored or @generated file are always formatted.
# By the property's text only skip_children / stdin exclude children.  exit 1 = violated.
. "$(dirname "$0")/common.sh"
bad=0
mkdir -p child/a root/a ign/a
( cd child
  printf 'mod a;\nfn root() {}\n' > lib.rs
  printf '#![rustfmt::skip]\nmod b;\nfn  a( ) { }\n' > a.rs
  printf 'fn  b( ) { }\n' > a/b.rs
  "$RUSTFMT" lib.rs; echo "skip on child file a.rs : exit $?, a/b.rs = $(cat a/b.rs)" )
( cd root
  printf '#![rustfmt::skip]\nmod a;\nfn  root( ) { }\n' > lib.rs
  printf 'mod b;\nfn a() {}\n' > a.rs
  printf 'fn  b( ) { }\n' > a/b.rs
  "$RUSTFMT" lib.rs; echo "skip on root file lib.rs: exit $?, a/b.rs = $(cat a/b.rs)" )
( cd ign
  printf 'ignore = ["a.rs"]\n' > rustfmt.toml
  printf 'mod a;\nfn root() {}\n' > lib.rs
  printf 'mod b;\nfn  a( ) { }\n' > a.rs
  printf 'fn  b( ) { }\n' > a/b.rs
  "$RUSTFMT" lib.rs; echo "ignore on child a.rs    : exit $?, a/b.rs = $(cat a/b.rs)" )
if grep -q 'fn  b( )' child/a/b.rs; then
    echo "VIOLATION: child/a/b.rs is reachable (lib.rs -> a.rs -> a/b.rs), carries no skip, skip_children is off, yet it was not formatted"
    bad=1
fi
[ $bad -eq 0 ] && echo "property holds"
exit $bad
