#!/bin/bash
# C06, "the stdout / diff / json / checkstyle / modified-lines emitters never modify a file":
# an emit_mode chosen in the rustfmt.toml found next to the input is honoured for everything
# except the choice of the emitter -- the file is rewritten in place. The same rustfmt.toml
# given through --config-path selects the stdout emitter and leaves the file alone.
BIN=${1:?usage: demo2.sh BIN_DIR}
R="$BIN/rustfmt"
if [ -z "$LD_LIBRARY_PATH" ]; then
    export LD_LIBRARY_PATH="$(cd "$BIN/../.." 2>/dev/null && rustc --print sysroot)/lib"
fi
T=$(mktemp -d /tmp/c06w-demo2.XXXXXX) || exit 2
trap 'rm -rf "$T"' EXIT
export HOME="$T/home"; unset XDG_CONFIG_HOME; mkdir -p "$HOME"
cd "$T" || exit 2
bad=0
for mode in Stdout Diff Json Checkstyle ModifiedLines; do
    mkdir -p "$mode"; printf 'fn main(){}\n' > "$mode/a.rs"; cp "$mode/a.rs" "$mode/a.orig"
    printf 'emit_mode = "%s"\n' "$mode" > "$mode/rustfmt.toml"
    # what the configuration in force says
    eff=$("$R" --print-config current "$mode/a.rs" | grep '^emit_mode')
    out=$("$R" "$mode/a.rs" 2>&1); e=$?
    if cmp -s "$mode/a.rs" "$mode/a.orig"; then st="untouched"; else st="REWRITTEN in place"; bad=1; fi
    echo "rustfmt.toml next to the file: $eff -> exit $e, stdout+stderr: $(printf %s "$out" | wc -c) bytes, file $st"
    # control: the same file through --config-path
    cp "$mode/a.orig" "$mode/a.rs"
    "$R" --config-path "$mode/rustfmt.toml" "$mode/a.rs" > /dev/null 2>&1
    cmp -s "$mode/a.rs" "$mode/a.orig" && echo "   control (--config-path $mode/rustfmt.toml): file untouched"
done
if [ $bad -eq 1 ]; then echo "VIOLATION: a non-writing emit mode was in force and the file was modified"; exit 1; fi
echo "property holds"; exit 0
