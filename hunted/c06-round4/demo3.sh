#!/bin/bash
# C06, path vs standard input under an explicit newline_style: the check report for standard input
# is computed against the text rustc's SourceMap has normalised (CRLF -> LF), not against the input.
#  (a) newline_style=Windows, correctly formatted CRLF input: the path is clean, stdin is reported
#      as "Incorrect newline style" although --emit stdout returns the input byte for byte;
#  (b) newline_style=Unix, CRLF input: the path is reported (and would be rewritten), stdin is
#      reported clean although --emit stdout returns different bytes.
BIN=${1:?usage: demo3.sh BIN_DIR}
R="$BIN/rustfmt"
if [ -z "$LD_LIBRARY_PATH" ]; then
    export LD_LIBRARY_PATH="$(cd "$BIN/../.." 2>/dev/null && rustc --print sysroot)/lib"
fi
T=$(mktemp -d /tmp/c06w-demo3.XXXXXX) || exit 2
trap 'rm -rf "$T"' EXIT
export HOME="$T/home"; unset XDG_CONFIG_HOME; mkdir -p "$HOME"
cd "$T" || exit 2
printf 'fn main() {\r\n    let x = 1;\r\n}\r\n' > crlf.rs
bad=0
# (a)
"$R" --config newline_style=Windows --emit stdout < crlf.rs > a.out
ra_path=$("$R" --check --config newline_style=Windows crlf.rs 2>&1); ea=$?
ra_stdin=$("$R" --check --config newline_style=Windows < crlf.rs 2>&1)
echo "(a) Windows: stdin text == input: $(cmp -s a.out crlf.rs && echo yes || echo no); --check path: exit $ea '$ra_path'; --check stdin: '$ra_stdin'"
if cmp -s a.out crlf.rs && [ $ea -eq 0 ] && [ -n "$ra_stdin" ]; then bad=1; fi
# (b)
"$R" --config newline_style=Unix --emit stdout < crlf.rs > b.out
rb_path=$("$R" --check --config newline_style=Unix crlf.rs 2>&1); eb=$?
rb_stdin=$("$R" --check --config newline_style=Unix < crlf.rs 2>&1)
echo "(b) Unix:    stdin text == input: $(cmp -s b.out crlf.rs && echo yes || echo no); --check path: exit $eb '$rb_path'; --check stdin: '$rb_stdin'"
if ! cmp -s b.out crlf.rs && [ $eb -eq 1 ] && [ -z "$rb_stdin" ]; then bad=1; fi
if [ $bad -eq 1 ]; then echo "VIOLATION: the check report for stdin contradicts the text produced for stdin (and the report for the path)"; exit 1; fi
echo "property holds"; exit 0
