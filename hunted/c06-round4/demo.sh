#!/bin/bash
# C06, "all emit modes agree on the text": with --file-lines, the text produced for a source given
# as a path (--emit stdout, --emit files) differs from the text produced for the same source on
# standard input, although both invocations list *every* line of their own input.
# usage: demo.sh <dir with the built binaries>
BIN=${1:?usage: demo.sh BIN_DIR}
R="$BIN/rustfmt"
if [ -z "$LD_LIBRARY_PATH" ]; then
    export LD_LIBRARY_PATH="$(cd "$BIN/../.." 2>/dev/null && rustc --print sysroot)/lib"
fi
T=$(mktemp -d /tmp/c06w-demo1.XXXXXX) || exit 2
trap 'rm -rf "$T"' EXIT
export HOME="$T/home"; unset XDG_CONFIG_HOME; mkdir -p "$HOME"
cd "$T" || exit 2

cat > f.rs <<'SRC'
fn a(){}
macro_rules! m {
    ($x:expr) => { let y=$x;   foo(y) };
}
fn b(){}
SRC
N=$(wc -l < f.rs)
cp f.rs orig.rs

# the same source, every line selected, path vs stdin
"$R" --unstable-features -q --emit stdout \
    --file-lines "[{\"file\":\"$T/f.rs\",\"range\":[1,$N]}]" f.rs > out.path 2> err.path
e1=$?
"$R" --unstable-features -q --emit stdout \
    --file-lines "[{\"file\":\"stdin\",\"range\":[1,$N]}]" < f.rs > out.stdin 2> err.stdin
e2=$?
# files mode with the same ranges (agrees with --emit stdout for the path)
cp f.rs g.rs
"$R" --unstable-features -q \
    --file-lines "[{\"file\":\"$T/g.rs\",\"range\":[1,$N]}]" g.rs > /dev/null 2> err.files
e3=$?
# for reference: no --file-lines at all (= all lines of all files)
"$R" -q --emit stdout f.rs > out.all 2>/dev/null

echo "exit codes: path=$e1 stdin=$e2 files=$e3; stderr sizes: $(cat err.path err.stdin err.files | wc -c)"
echo "--- path, --file-lines [1,$N] of f.rs (--emit stdout):"; cat out.path
echo "--- stdin, --file-lines [1,$N] of stdin:";               cat out.stdin
echo "--- files mode result identical to --emit stdout of the path: $(cmp -s out.path g.rs && echo yes || echo no)"
echo "--- stdin text identical to the text without --file-lines:    $(cmp -s out.stdin out.all && echo yes || echo no)"
cmp -s f.rs orig.rs || { echo "source was modified by --emit stdout?!"; exit 1; }

if [ $e1 -eq 0 ] && [ $e2 -eq 0 ] && [ ! -s err.path ] && [ ! -s err.stdin ] && ! cmp -s out.path out.stdin; then
    echo "VIOLATION: no error reported, same source, every line selected, but path and stdin texts differ:"
    diff out.path out.stdin
    exit 1
fi
echo "property holds"
exit 0
