#!/bin/bash
# C15 violation: what rustfmt does for c.rs depends on whether b.rs was given BEFORE it on the
# same command line.  b.rs has an over-long line of two-byte characters and a local config that
# turns the line-overflow report on; rendering that report panics (annotate-snippets slices the
# line at a display column used as a byte index), the process dies with 101 and every later
# input is silently left unformatted.
. "$(dirname "$0")/common.sh"

mktree() {
    mkdir -p "$1/d1" "$1/d2"
    {
        printf 'fn  main( ) {\n    let s = "'
        printf 'é%.0s' $(seq 100)
        printf '";\n}\n'
    } > "$1/d1/b.rs"
    printf 'unstable_features = true\nerror_on_line_overflow = true\nerror_on_unformatted = true\n' \
        > "$1/d1/rustfmt.toml"
    printf 'fn  c( ) {\n}\n' > "$1/d2/c.rs"
}

run() { # run <tree> <files...>: default emit mode (files)
    local tree=$1; shift
    (cd "$tree" && "$RF" "$@" >"$tree/stdout" 2>"$tree/stderr"); echo $?
}

mktree "$T/single_b"; rc_b=$(run "$T/single_b" d1/b.rs)
mktree "$T/single_c"; rc_c=$(run "$T/single_c" d2/c.rs)
mktree "$T/multi_bc"; rc_bc=$(run "$T/multi_bc" d1/b.rs d2/c.rs)
mktree "$T/multi_cb"; rc_cb=$(run "$T/multi_cb" d2/c.rs d1/b.rs)

echo "single  b.rs        : exit $rc_b"
echo "single  c.rs        : exit $rc_c   c.rs -> $(tr '\n' '|' < "$T/single_c/d2/c.rs")"
echo "multi   b.rs c.rs   : exit $rc_bc  c.rs -> $(tr '\n' '|' < "$T/multi_bc/d2/c.rs")"
echo "multi   c.rs b.rs   : exit $rc_cb  c.rs -> $(tr '\n' '|' < "$T/multi_cb/d2/c.rs")"
echo "stderr of 'b.rs c.rs' (excerpt):"
grep -E "panicked|char boundary" "$T/multi_bc/stderr" | cut -c1-160 | sed 's/^/    /'
echo "files left behind in the working directory: $(cd "$T/multi_bc" && ls | grep -c '^rustc-ice') rustc-ice-*.txt"

bad=0
if ! cmp -s "$T/single_c/d2/c.rs" "$T/multi_bc/d2/c.rs"; then
    echo "VIOLATION: c.rs after 'rustfmt b.rs c.rs' differs from c.rs after 'rustfmt c.rs'"
    bad=1
fi
if ! cmp -s "$T/multi_cb/d2/c.rs" "$T/multi_bc/d2/c.rs"; then
    echo "VIOLATION: the bytes produced for c.rs depend on the order of the inputs"
    bad=1
fi
if [ "$rc_b" -gt 1 ] || [ "$rc_bc" -gt 1 ]; then
    echo "VIOLATION: rustfmt did not report the over-long line, it crashed (exit $rc_b / $rc_bc)"
    bad=1
fi
[ $bad = 0 ] && echo "property holds"
exit $bad
