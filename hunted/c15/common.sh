# sourced by the demo scripts: $1 = directory holding the built binaries
BIN=${1:?usage: $0 <dir with rustfmt binaries, e.g. /tmp/wt/c15x/target/debug>}
BIN=$(cd "$BIN" && pwd)
if [ -z "$LD_LIBRARY_PATH" ] || ! "$BIN/rustfmt" --version >/dev/null 2>&1; then
    WT=$(cd "$BIN/../.." 2>/dev/null && pwd)
    SYSROOT=$(cd "${WT:-.}" && rustc --print sysroot 2>/dev/null)
    export LD_LIBRARY_PATH="$SYSROOT/lib${LD_LIBRARY_PATH:+:$LD_LIBRARY_PATH}"
fi
"$BIN/rustfmt" --version >/dev/null 2>&1 || { echo "cannot run $BIN/rustfmt (LD_LIBRARY_PATH?)"; exit 2; }
RF="$BIN/rustfmt"
# keep the user's own configuration out of the picture
export HOME=/nonexistent-home
unset XDG_CONFIG_HOME
T=$(mktemp -d)
trap 'rm -rf "$T"' EXIT
