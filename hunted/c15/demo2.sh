#!/bin/bash
# C15 violation: the emitter of a command-line run is built from the configuration that exists
# BEFORE the per-file rustfmt.toml lookup, while the file is formatted with the configuration
# found BY the lookup.  A rustfmt.toml that sets emit_mode = "Coverage" therefore makes
# `rustfmt a.rs` write the coverage rendering (comments replaced by X) INTO the source file,
# whereas the same configuration given with --config-path, or the same source on standard
# input, does nothing of the kind.
. "$(dirname "$0")/common.sh"

mktree() {
    mkdir -p "$1"
    printf '// an important comment\nfn  a( ) {\n    // body comment\n    let  x = 1;\n}\n' > "$1/a.rs"
    printf 'unstable_features = true\nemit_mode = "Coverage"\n' > "$1/rustfmt.toml"
}

mktree "$T/lookup";  (cd "$T/lookup"  && "$RF" a.rs > stdout 2> stderr); rc_lookup=$?
mktree "$T/cfgpath"; (cd "$T/cfgpath" && "$RF" --config-path rustfmt.toml a.rs > stdout 2> stderr); rc_cfgpath=$?
mktree "$T/stdin";   (cd "$T/stdin"   && "$RF" < a.rs > stdout 2> stderr); rc_stdin=$?
mktree "$T/orig"

echo "effective configuration according to --print-config current a.rs:"
(cd "$T/orig" && "$RF" --print-config current a.rs | grep -E '^emit_mode' | sed 's/^/    /')
echo "--- rustfmt a.rs   (rustfmt.toml found by lookup), exit $rc_lookup; a.rs is now:"
sed 's/^/    /' "$T/lookup/a.rs"
echo "--- rustfmt --config-path rustfmt.toml a.rs, exit $rc_cfgpath; stdout $(wc -c < "$T/cfgpath/stdout") bytes; a.rs is now:"
sed 's/^/    /' "$T/cfgpath/a.rs"
echo "--- rustfmt < a.rs  (same directory), exit $rc_stdin; stdout:"
sed 's/^/    /' "$T/stdin/stdout"

bad=0
# Whatever the emit mode is taken to be, the file on disk may only be left alone or be replaced
# by the formatted text (which is what the stdin run prints).
if ! cmp -s "$T/lookup/a.rs" "$T/orig/a.rs" && ! cmp -s "$T/lookup/a.rs" "$T/stdin/stdout"; then
    echo "VIOLATION: 'rustfmt a.rs' wrote something that is neither the source nor the formatted text"
    bad=1
fi
if grep -q 'XX' "$T/lookup/a.rs"; then
    echo "VIOLATION: the comments of a.rs were overwritten with X (coverage rendering written in place)"
    bad=1
fi
if ! cmp -s "$T/lookup/a.rs" "$T/cfgpath/a.rs" || ! cmp -s "$T/lookup/stdout" "$T/cfgpath/stdout"; then
    echo "VIOLATION: same source, same effective configuration, different result for lookup vs --config-path"
    bad=1
fi
[ $bad = 0 ] && echo "property holds"
exit $bad
