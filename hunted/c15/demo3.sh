#!/bin/bash
# C15 violation (path vs standard input, emit modes json / checkstyle / --check): when the
# root of a standard-input source is skipped (#![rustfmt::skip]) or disable_all_formatting is
# set, format_project / format_input_inner call echo_back_stdin(), which writes the source text
# straight to the process's stdout -- bypassing the session's emitter and `out`.  In the report
# emit modes the source text lands in the middle of the report; the same source given as a path
# produces the empty report.
. "$(dirname "$0")/common.sh"

cd "$T"
printf '#![rustfmt::skip]\nfn  a( ) {\n}\n' > skip.rs
mkdir off && printf 'disable_all_formatting = true\n' > off/rustfmt.toml && printf 'fn  a( ) {\n}\n' > off/a.rs

bad=0
compare() { # compare <label> <dir> <file> <args...>
    local label=$1 dir=$2 file=$3; shift 3
    (cd "$dir" && "$RF" "$@" "$file" > "$T/p.out" 2> "$T/p.err"); local prc=$?
    (cd "$dir" && "$RF" "$@" < "$file" > "$T/s.out" 2> "$T/s.err"); local src=$?
    if cmp -s "$T/p.out" "$T/s.out" && [ $prc = $src ]; then
        echo "same      $label: $*"
    else
        echo "DIFFERENT $label: $*   (path: exit $prc, stdin: exit $src)"
        echo "    path  stdout: $(tr '\n' '|' < "$T/p.out")"
        echo "    stdin stdout: $(tr '\n' '|' < "$T/s.out")"
        bad=1
    fi
}
for src in "skip . skip.rs" "disable_all_formatting off a.rs"; do
    set -- $src
    compare "$1" "$2" "$3" --emit json
    compare "$1" "$2" "$3" --emit checkstyle
    compare "$1" "$2" "$3" --check
done
(cd "$T" && "$RF" --emit json < skip.rs) | python3 -c 'import json,sys; json.load(sys.stdin)' 2>/dev/null \
    || { echo "VIOLATION: 'rustfmt --emit json < skip.rs' does not even print JSON"; bad=1; }
[ $bad = 0 ] && echo "property holds" || echo "VIOLATION: the report for the same source differs between path and standard input"
exit $bad
