#!/bin/bash
# C15 violation in rustfmt-format-diff (across processes): the files named by the diff are kept
# in a HashSet<String> and handed to rustfmt with `.args(files)`, i.e. in the set's iteration
# order, which differs from process to process.  The order of the inputs on rustfmt's command
# line -- and with it the order of everything rustfmt reports -- changes between identical runs.
#
# NOTE: rustfmt-format-diff never passes --unstable-features, so with this (nightly-channel)
# rustfmt every invocation fails with "Unstable option (`--file-lines`) used without
# `--unstable-features`".  To see what rustfmt does with the inputs, the documented RUSTFMT
# environment variable points at a two-line wrapper that adds the flag.
. "$(dirname "$0")/common.sh"

cd "$T"
: > the.diff
for f in a b c d e; do
    printf 'fn  %s( {\n' $f > $f.rs      # each file fails to parse -> one diagnostic per file
    printf -- '--- a/%s.rs\n+++ b/%s.rs\n@@ -1,1 +1,1 @@\n+x\n' $f $f >> the.diff
done
cat > rf-wrapper.sh <<WRAP
#!/bin/sh
echo "\$@" | sed 's/ --file-lines.*//' >> "$T/argv.log"
exec "$RF" --unstable-features "\$@"
WRAP
chmod +x rf-wrapper.sh

for i in $(seq 12); do
    RUSTFMT="$T/rf-wrapper.sh" "$BIN/rustfmt-format-diff" -p 1 < the.diff 2>&1 \
        | grep -- '-->' | sed 's#.*/\([a-e]\.rs\).*#\1#' | tr '\n' ' ' >> diag.log
    echo >> diag.log
done
echo "order of the inputs on rustfmt's command line in 12 identical runs:"
sort argv.log | uniq -c | sed 's/^/    /'
echo "order of the parse errors on stderr in the same runs:"
sort diag.log | uniq -c | sed 's/^/    /'
n=$(sort -u argv.log | wc -l)
if [ "$n" -gt 1 ]; then
    echo "VIOLATION: $n different input orders (and report orders) for the same diff"
    exit 1
fi
echo "property holds"
exit 0
