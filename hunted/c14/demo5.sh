#!/bin/bash
# C14 demo 5 (same family as F2, different trigger): a width option written in the file is clamped
# against the max_width known while the *file* is loaded; a later `--config max_width=N` does not
# restore it, so max_width=N has a different effect from --config than from the file.
. "$(dirname "$0")/common.sh"
mkdir -p proj; : > proj/x.rs
printf 'fn_call_width = 150\nmax_width = 200\n' > proj/rustfmt.toml
all_file=$("$RUSTFMT" --print-config current proj/x.rs 2>/dev/null | grep '^fn_call_width')
printf 'fn_call_width = 150\n' > proj/rustfmt.toml
layered=$("$RUSTFMT" --print-config current proj/x.rs --config max_width=200 2>/dev/null | grep '^fn_call_width')
echo "   file {fn_call_width=150, max_width=200}                 -> $all_file"
echo "   file {fn_call_width=150} + --config max_width=200       -> $layered"
[ "$all_file" = "$layered" ] && ok "same" || bad "max_width=200 from --config and from the file give different fn_call_width"
exit $FAIL
