#!/bin/bash
# C14 demo 2: the text printed by `--print-config current` does not re-parse to the same effective
# configuration when skip_macro_invocations is not empty: "*" is printed as "All" (which re-parses
# as a macro *named* All), and a name is printed as a table that the parser rejects.
. "$(dirname "$0")/common.sh"
mkdir -p proj
printf 'fn main() {\n    foo!(  a,b ,c );\n    All!( x,y );\n}\n' > proj/x.rs

echo '== A. skip_macro_invocations = ["*"]'
printf 'skip_macro_invocations = ["*"]\n' > proj/rustfmt.toml
"$RUSTFMT" --print-config current proj/x.rs > dump1.toml 2>/dev/null
echo "   dumped line: $(grep skip_macro_invocations dump1.toml)"
"$RUSTFMT" --emit stdout proj/x.rs 2>/dev/null | tail -n +3 > fmt.orig
"$RUSTFMT" --emit stdout --config-path dump1.toml proj/x.rs 2>/dev/null | tail -n +3 > fmt.dump
"$RUSTFMT" --print-config current --config-path dump1.toml proj/x.rs > dump1b.toml 2>/dev/null
if ! cmp -s fmt.orig fmt.dump; then
    diff fmt.orig fmt.dump | sed 's/^/   /'
    bad 'the dump of ["*"] re-parses to a different configuration (foo! is no longer skipped)'
else ok "wildcard round trip"; fi

echo '== B. skip_macro_invocations = ["foo"]'
printf 'skip_macro_invocations = ["foo"]\n' > proj/rustfmt.toml
"$RUSTFMT" --print-config current proj/x.rs > dump2.toml 2>/dev/null
echo "   dumped text: $(grep -A1 skip_macro_invocations dump2.toml | tr '\n' ' ')"
if "$RUSTFMT" --print-config current --config-path dump2.toml proj/x.rs > dump2b.toml 2> err2; then
    cmp -s dump2.toml dump2b.toml && ok "name round trip" || bad "dump of [\"foo\"] re-parses differently"
else
    sed 's/^/   /' err2
    bad 'the dump of ["foo"] does not re-parse at all'
fi
exit $FAIL
