#![feature(rustc_private)]
extern crate rustc_driver;
extern crate rustfmt_nightly;
use rustfmt_nightly::{Config, Input, Session};

fn fmt(config: Config, src: &str) -> String {
    let mut out: Vec<u8> = Vec::new();
    {
        let mut s = Session::new(config, Some(&mut out));
        s.format(Input::Text(src.to_owned())).unwrap();
    }
    String::from_utf8(out).unwrap()
}

fn main() {
    let mut fail = false;
    let src = "fn main() {\n    f(aaaaaaaaaaaaaaaa, bbbbbbbbbbbbbbbbbbbb, cccccccccccccccccccc, dddddddddddddddddddd);\n}\n";

    // the same value, three sources
    let mut api = Config::default();
    api.set().emit_mode(rustfmt_nightly::EmitMode::Stdout);
    api.set().fn_call_width(90);
    let mut ovr = Config::default();
    ovr.set().emit_mode(rustfmt_nightly::EmitMode::Stdout);
    ovr.override_value("fn_call_width", "90");
    println!("fn_call_width: set().fn_call_width(90) -> {}, override_value(\"fn_call_width\",\"90\") -> {}",
             api.fn_call_width(), ovr.fn_call_width());
    if api.fn_call_width() != ovr.fn_call_width() { fail = true; }
    let (a, b) = (fmt(api, src), fmt(ovr, src));
    if a != b {
        println!("formatted through the API setter:\n{a}formatted through override_value (= --config):\n{b}");
        fail = true;
    }

    let mut api = Config::default();
    api.set().merge_imports(true);
    let mut ovr = Config::default();
    ovr.override_value("merge_imports", "true");
    println!("merge_imports=true: imports_granularity via set() {:?}, via override_value {:?}",
             api.imports_granularity(), ovr.imports_granularity());
    if api.imports_granularity() != ovr.imports_granularity() { fail = true; }

    let mut api = Config::default();
    api.set().hide_parse_errors(true);
    let mut ovr = Config::default();
    ovr.override_value("hide_parse_errors", "true");
    println!("hide_parse_errors=true: show_parse_errors via set() {:?}, via override_value {:?}",
             api.show_parse_errors(), ovr.show_parse_errors());
    if api.show_parse_errors() != ovr.show_parse_errors() { fail = true; }

    std::process::exit(if fail { 1 } else { 0 });
}
