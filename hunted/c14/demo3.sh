#!/bin/bash
# C14 demo 3 (API clause): a value given through the public setter API (`config.set().X(v)`) does not
# have the effect the same value has through --config / override_value or a file:
#  - set().fn_call_width(90) (and every other width option) is silently thrown away,
#  - set().merge_imports / set().hide_parse_errors / set().fn_args_layout do not reach their successors.
# Needs the rustfmt_nightly rlib that `cargo build` left in <bindir>/deps and the pinned rustc.
. "$(dirname "$0")/common.sh"
RLIB=$(ls -t "$BIN"/deps/librustfmt_nightly-*.rlib 2>/dev/null | head -1)
[ -n "$RLIB" ] || { echo "no librustfmt_nightly rlib under $BIN/deps"; exit 2; }
RUSTC=$SYSROOT/bin/rustc
("$RUSTC" --edition 2021 "$HERE/demo3_api.rs" -o "$T/api" -L dependency="$BIN/deps" \
    --extern rustfmt_nightly="$RLIB" 2> "$T/rustc.err") || { cat "$T/rustc.err"; echo "could not build the probe"; exit 2; }
"$T/api" 2>/dev/null
rc=$?
[ $rc = 0 ] && ok "API and --config agree" || bad "the setter API and override_value/--config disagree for the same value"
exit $FAIL
