#!/bin/bash
# C14 demo 6 (minor): unstable_features = true (a documented option) written in rustfmt.toml is
# reset to false by the *absence* of the --unstable-features flag, while --config
# unstable_features=true sticks.  (verbose = "Verbose" in the file is reset the same way.)
. "$(dirname "$0")/common.sh"
mkdir -p proj; : > proj/x.rs
printf 'unstable_features = true\n' > proj/rustfmt.toml
from_file=$("$RUSTFMT" --print-config current proj/x.rs 2>/dev/null | grep '^unstable_features')
: > proj/rustfmt.toml
from_cli=$("$RUSTFMT" --print-config current proj/x.rs --config unstable_features=true 2>/dev/null | grep '^unstable_features')
echo "   from rustfmt.toml: $from_file"
echo "   from --config    : $from_cli"
[ "$from_file" = "$from_cli" ] && ok "same" || bad "unstable_features = true from the file is dropped"
exit $FAIL
