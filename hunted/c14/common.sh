# sourced by the demo scripts: $1 = directory holding the built binaries
BIN=${1:?usage: $0 <dir with rustfmt binaries, e.g. /tmp/wt/c14x/target/debug>}
BIN=$(cd "$BIN" && pwd)
RUSTFMT=$BIN/rustfmt
HERE=$(cd "$(dirname "$0")" && pwd)
WT=$(cd "$BIN/../.." && pwd)
# the binaries link against the pinned toolchain's librustc_driver (asked for before HOME is changed)
SYSROOT=$(cd "$WT" && rustc --print sysroot 2>/dev/null)
[ -n "$SYSROOT" ] && export LD_LIBRARY_PATH=$SYSROOT/lib${LD_LIBRARY_PATH:+:$LD_LIBRARY_PATH}
"$RUSTFMT" --version >/dev/null || { echo "cannot run $RUSTFMT"; exit 2; }
T=$(mktemp -d /tmp/c14x-demo.XXXXXX)
trap 'rm -rf "$T"' EXIT
# keep the home / user-config fallbacks out of the picture
export HOME=$T/nohome
unset XDG_CONFIG_HOME
mkdir -p "$HOME"
cd "$T"
FAIL=0
bad() { echo "VIOLATION: $*"; FAIL=1; }
ok() { echo "ok: $*"; }
