#!/bin/bash
# C14 demo 1: emit_mode / make_backup / print_misformatted_file_names / color written in the
# rustfmt.toml that is *discovered* next to the input are ignored, while the very same file given
# through --config-path (or the same key=val through --config) takes effect.
. "$(dirname "$0")/common.sh"
UNFORMATTED='fn  main( ){}'
fresh() { mkdir -p proj/src; printf '%s\n' "$UNFORMATTED" > proj/src/x.rs; rm -f proj/src/*.bk; }

echo "== A. emit_mode = \"Stdout\""
fresh; printf 'emit_mode = "Stdout"\n' > proj/rustfmt.toml
"$RUSTFMT" proj/src/x.rs > out.discovered 2>&1
disk_discovered=$(cat proj/src/x.rs)
fresh
"$RUSTFMT" --config-path proj/rustfmt.toml proj/src/x.rs > out.configpath 2>&1
disk_configpath=$(cat proj/src/x.rs)
fresh; : > proj/rustfmt.toml
"$RUSTFMT" --config emit_mode=Stdout proj/src/x.rs > out.cli 2>&1
disk_cli=$(cat proj/src/x.rs)
echo "   --config-path: file on disk: '$disk_configpath', stdout bytes: $(wc -c < out.configpath)"
echo "   --config     : file on disk: '$disk_cli', stdout bytes: $(wc -c < out.cli)"
echo "   discovered   : file on disk: '$disk_discovered', stdout bytes: $(wc -c < out.discovered)"
if [ "$disk_configpath" = "$UNFORMATTED" ] && [ "$disk_cli" = "$UNFORMATTED" ] && [ "$disk_discovered" != "$UNFORMATTED" ]; then
    bad "emit_mode = \"Stdout\" in the nearest rustfmt.toml is ignored: the input file was overwritten"
else ok "emit_mode"; fi

echo "== B. make_backup = true"
fresh; printf 'make_backup = true\n' > proj/rustfmt.toml
"$RUSTFMT" proj/src/x.rs; bk_discovered=$(ls proj/src | grep -c '\.bk$')
fresh
"$RUSTFMT" --config-path proj/rustfmt.toml proj/src/x.rs; bk_configpath=$(ls proj/src | grep -c '\.bk$')
echo "   backups written: --config-path: $bk_configpath, discovered: $bk_discovered"
if [ "$bk_configpath" = 1 ] && [ "$bk_discovered" = 0 ]; then
    bad "make_backup = true in the nearest rustfmt.toml is ignored: no x.bk"
else ok "make_backup"; fi

echo "== C. print_misformatted_file_names = true (with --check)"
fresh; printf 'print_misformatted_file_names = true\n' > proj/rustfmt.toml
"$RUSTFMT" --check proj/src/x.rs > l.discovered 2>&1
"$RUSTFMT" --check --config-path proj/rustfmt.toml proj/src/x.rs > l.configpath 2>&1
echo "   --config-path prints: $(tr '\n' '|' < l.configpath)"
echo "   discovered prints   : $(tr '\n' '|' < l.discovered)"
if ! cmp -s l.discovered l.configpath; then
    bad "print_misformatted_file_names = true in the nearest rustfmt.toml is ignored"
else ok "print_misformatted_file_names"; fi

echo "== D. color = \"Never\" (with --check, TERM=xterm; skipped if no terminfo)"
fresh; : > proj/rustfmt.toml
ESC=$(printf '\033')
if TERM=xterm "$RUSTFMT" --check proj/src/x.rs | grep -q "$ESC"; then
    printf 'color = "Never"\n' > proj/rustfmt.toml
    TERM=xterm "$RUSTFMT" --check proj/src/x.rs > c.discovered 2>&1
    TERM=xterm "$RUSTFMT" --check --config-path proj/rustfmt.toml proj/src/x.rs > c.configpath 2>&1
    : > proj/rustfmt.toml
    TERM=xterm "$RUSTFMT" --check --config color=Never proj/src/x.rs > c.cli 2>&1
    n_d=$(grep -c "$ESC" c.discovered); n_p=$(grep -c "$ESC" c.configpath); n_c=$(grep -c "$ESC" c.cli)
    echo "   lines with escape sequences: --config-path: $n_p, --config: $n_c, discovered: $n_d"
    if [ "$n_p" = 0 ] && [ "$n_c" = 0 ] && [ "$n_d" != 0 ]; then
        bad "color = \"Never\" in the nearest rustfmt.toml is ignored: the diff is still coloured"
    else ok "color"; fi
else
    echo "   skipped (the diff is not coloured here even by default)"
fi

echo "== E. two inputs from two directories, each with its own emit_mode"
rm -rf proj; mkdir -p a b; printf '%s\n' "$UNFORMATTED" > a/x.rs; printf '%s\n' "$UNFORMATTED" > b/y.rs
printf 'emit_mode = "Stdout"\n' > a/rustfmt.toml; printf 'emit_mode = "Files"\n' > b/rustfmt.toml
"$RUSTFMT" a/x.rs b/y.rs > two.out 2>&1
echo "   a/x.rs (its config says Stdout) on disk: '$(cat a/x.rs)'"
[ "$(cat a/x.rs)" = "$UNFORMATTED" ] || bad "a/x.rs was overwritten although a/rustfmt.toml says emit_mode = \"Stdout\""

exit $FAIL
