#!/bin/bash
# C14 demo 4: a deprecated alias given through --config does not override the successor option set
# in the rustfmt.toml, although "--config key=val overrides any file" and "deprecated aliases map to
# their successors".
. "$(dirname "$0")/common.sh"
mkdir -p proj; : > proj/x.rs
cur() { "$RUSTFMT" --print-config current proj/x.rs "$@" 2>/dev/null | grep "^$KEY = "; }
check() { # file-line, cli alias, successor key, expected successor value
    printf '%s\n' "$1" > proj/rustfmt.toml
    KEY=$3; got=$(cur --config "$2")
    : > proj/rustfmt.toml; alone=$(cur --config "$2")
    echo "   file: $1 | --config $2 -> $got   (without the file line: $alone)"
    if [ "$got" != "$3 = $4" ] && [ "$alone" = "$3 = $4" ]; then
        bad "--config $2 does not override '$1' from the file"
    else ok "$2"; fi
}
check 'show_parse_errors = true'        hide_parse_errors=true   show_parse_errors   false
check 'fn_params_layout = "Compressed"' fn_args_layout=Vertical  fn_params_layout    '"Vertical"'
check 'imports_granularity = "Preserve"' merge_imports=true      imports_granularity '"Crate"'

echo "== effect on a run: the user asks for hide_parse_errors=true on the command line"
printf 'show_parse_errors = true\n' > proj/rustfmt.toml
printf 'fn main( {\n' > proj/bad.rs
n=$("$RUSTFMT" --config hide_parse_errors=true proj/bad.rs 2>&1 | grep -c "mismatched closing\|error:")
echo "   parser error lines still printed: $n"
exit $FAIL
