import subprocess, os, tempfile, shutil, itertools
RF=os.environ['RF']
T=tempfile.mkdtemp(prefix='c14w.')
home=os.path.join(T,'home'); os.mkdir(home)
env=dict(os.environ,HOME=home); env.pop('XDG_CONFIG_HOME',None)
d=os.path.join(T,'p'); os.mkdir(d)
src=os.path.join(d,'x.rs')
SRC='use std::{a10, a9, a1};\nfn main() {}\n'  # version sort differs 2015 vs 2024
open(src,'w').write(SRC)
SE=[None,'2015','2021','2024']; VER=[None,'One','Two']; ED=[None,'2015','2018','2024']
def eff(se,ver,ed):
    if se: return se
    if ver: return '2024' if ver=='Two' else '2015'
    if ed: return ed
    return '2015'
bad=0;n=0
for fse,fver,fed in itertools.product(SE,VER,ED):
  cfg=''
  if fse: cfg+='style_edition = "%s"\n'%fse
  if fver: cfg+='version = "%s"\n'%fver
  if fed: cfg+='edition = "%s"\n'%fed
  cf=os.path.join(d,'rustfmt.toml')
  if cfg: open(cf,'w').write(cfg)
  elif os.path.exists(cf): os.remove(cf)
  for cse,cver,ced,flagstyle in itertools.product([None,'2015','2024'],[None,'One','Two'],[None,'2015','2024'],[0,1]):
    args=[]
    if cse: args+= ['--style-edition',cse] if flagstyle else ['--config','style_edition=%s'%cse]
    if cver: args+=['--config','version=%s'%cver]
    if ced: args+= ['--edition',ced] if flagstyle else ['--config','edition=%s'%ced]
    if flagstyle and not (cse or ced): continue
    want=eff(cse or fse, cver or fver, ced or fed)
    wantstyle='2024' if want=='2024' else 'old'
    r=subprocess.run([RF,'--emit','stdout']+args+[src],env=env,capture_output=True,text=True); n+=1
    out=r.stdout
    gotstyle='2024' if out.index('a9')<out.index('a10') else 'old'
    if gotstyle!=wantstyle:
        bad+=1
        if bad<25: print('MISMATCH file',(fse,fver,fed),'cli',(cse,cver,ced,flagstyle),'want',want,'got',gotstyle)
print('runs',n,'bad',bad)
shutil.rmtree(T)
