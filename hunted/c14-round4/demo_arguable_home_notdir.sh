#!/bin/bash
# ARGUABLE (see notes.md): HOME (or $XDG_CONFIG_HOME, or $XDG_CONFIG_HOME/rustfmt) that is not a
# directory makes rustfmt refuse every file that has no project configuration, instead of
# formatting it with the defaults.  usage: demo_arguable_home_notdir.sh <dir with binaries>
B=${1:-/tmp/wt/c14w/target/debug}
export LD_LIBRARY_PATH=$(cd /tmp/wt/c14w && rustc --print sysroot)/lib
T=$(mktemp -d /tmp/c14w-demo.XXXXXX); trap 'rm -rf "$T"' EXIT
mkdir -p "$T/p" "$T/xdg"; : > "$T/notadir"; : > "$T/xdg/rustfmt"
printf 'fn main(){let x=[1,2,3];}\n' > "$T/p/x.rs"
unset XDG_CONFIG_HOME
want=$(HOME=$T/nonexistent "$B/rustfmt" --emit stdout "$T/p/x.rs")   # no config anywhere: defaults
bad=0
out=$(HOME=$T/notadir "$B/rustfmt" --emit stdout "$T/p/x.rs" 2>"$T/err"); rc=$?
echo "HOME is a regular file: rc=$rc"; cat "$T/err"
[ "$rc" = 0 ] && [ "$out" = "$want" ] || bad=1
out=$(HOME=$T/nonexistent XDG_CONFIG_HOME=$T/xdg "$B/rustfmt" --emit stdout "$T/p/x.rs" 2>"$T/err"); rc=$?
echo "\$XDG_CONFIG_HOME/rustfmt is a regular file: rc=$rc"; cat "$T/err"
[ "$rc" = 0 ] && [ "$out" = "$want" ] || bad=1
# with a project file the home directory is never consulted and the same environment works
echo 'hard_tabs = true' > "$T/p/rustfmt.toml"
HOME=$T/notadir "$B/rustfmt" --emit stdout "$T/p/x.rs" >/dev/null 2>&1; echo "same HOME, project rustfmt.toml present: rc=$?"
if [ $bad = 1 ]; then echo "file with no configuration anywhere was NOT formatted with the defaults"; exit 1; fi
exit 0
