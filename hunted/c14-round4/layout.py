import subprocess, os, tempfile, shutil, random
RF=os.environ['RF']
random.seed(7)
bad=0
for trial in range(150):
    T=tempfile.mkdtemp(prefix='c14w.')
    home=os.path.join(T,'h'); xdg=os.path.join(T,'xdg')
    os.makedirs(home); os.makedirs(os.path.join(xdg,'rustfmt')); os.makedirs(os.path.join(home,'.config','rustfmt'))
    levels=[os.path.join(T,'l0'),os.path.join(T,'l0','l1'),os.path.join(T,'l0','l1','l2')]
    os.makedirs(levels[2])
    use_xdg=random.random()<0.5
    # search order: l2,l1,l0,(T, /tmp, / assumed empty), home, configdir
    cfgdir=os.path.join(xdg,'rustfmt') if use_xdg else os.path.join(home,'.config','rustfmt')
    order=[levels[2],levels[1],levels[0],home,cfgdir]
    val=10; expect=None
    table={}
    for d in order:
        for name in ('.rustfmt.toml','rustfmt.toml'):
            k=random.choice(['none','none','file','file','dir','dangling','empty','symlink'])
            p=os.path.join(d,name); val+=1
            if k=='file': open(p,'w').write('tab_spaces = %d\n'%val); table[p]=val
            elif k=='dir': os.mkdir(p)
            elif k=='dangling': os.symlink('/nonexistent/zz',p)
            elif k=='empty': open(p,'w').close(); table[p]=4
            elif k=='symlink':
                tgt=os.path.join(T,'tgt%d.toml'%val); open(tgt,'w').write('tab_spaces = %d\n'%val); os.symlink(tgt,p); table[p]=val
    for d in order:
        for name in ('.rustfmt.toml','rustfmt.toml'):
            p=os.path.join(d,name)
            if p in table and expect is None: expect=table[p]
    if expect is None: expect=4
    start=random.choice([0,1,2])
    src=os.path.join(levels[start],'x.rs'); open(src,'w').write('fn main() {}\n')
    # recompute expect from start level
    expect=None
    for d in order[2-start:]:
        for name in ('.rustfmt.toml','rustfmt.toml'):
            p=os.path.join(d,name)
            if p in table and expect is None: expect=table[p]
    if expect is None: expect=4
    env=dict(os.environ,HOME=home); env.pop('XDG_CONFIG_HOME',None)
    if use_xdg: env['XDG_CONFIG_HOME']=xdg
    spell=random.choice(['abs','rel','dotdot'])
    cwd=T; arg=src
    if spell=='rel': cwd=levels[start]; arg='x.rs'
    elif spell=='dotdot': cwd=levels[2]; arg=os.path.relpath(src,cwd) if start!=2 else '../l2/x.rs'
    r=subprocess.run([RF,'--print-config','current',arg],env=env,cwd=cwd,capture_output=True,text=True)
    got=[l for l in r.stdout.splitlines() if l.startswith('tab_spaces')]
    got=int(got[0].split('=')[1]) if got else None
    if got!=expect:
        bad+=1; print('MISMATCH',trial,expect,got,r.stderr[:200]); print(sorted(table.items()))
    shutil.rmtree(T)
print('bad',bad)
