export LD_LIBRARY_PATH=/root/.rustup/toolchains/nightly-2025-04-02-x86_64-unknown-linux-gnu/lib
export B=/tmp/wt/c14w/target/debug
export RF=$B/rustfmt
