import subprocess, os, re, tempfile, shutil
RF=os.environ['RF']
helptxt=subprocess.run([RF,'--unstable-features','--help=config'],capture_output=True,text=True).stdout
opts=[]
for line in helptxt.splitlines():
    m=re.match(r'^ +([a-z_]+) (\[[^\]]*\]|<[^>]*>) Default: (\S*)',line)
    if m: opts.append((m.group(1),m.group(2),m.group(3)))
opts+= [('merge_imports','<boolean>',''),('fn_args_layout','[Compressed|Tall|Vertical]',''),('hide_parse_errors','<boolean>','')]
T=tempfile.mkdtemp(prefix='c14w.')
home=os.path.join(T,'home'); os.mkdir(home)
env=dict(os.environ,HOME=home); env.pop('XDG_CONFIG_HOME',None)
d=os.path.join(T,'p'); os.mkdir(d)
src=os.path.join(d,'x.rs')
SRC='''//! Doc
//! ```
//! fn f(){let x=[1,2,3];foo(aaaaaaaaaaaaaaaaaaaa,bbbbbbbbbbbbbbbbbbbbbbbbbbb,cccccccccccccccccccccccc,dddddddd);let s = S{a:1,b:2}; if a {b} else {c}}
//! ```
#![doc = "attr doc"]
use std::{b,a10,a9};
use std::c;
use crate::z; use core::q;
/* block comment that is quite long and goes on and on and on and on and on and on and on and on and on and on */
macro_rules! m{($a:expr)=>{foo(aaaaaaaaaaaaaaaaaaaa,bbbbbbbbbbbbbbbbbbbbbbbbbbb,cccccccccccccccccccccccc,$a);let s = S{a:1,b:2};};($a:expr,$b:expr)=>{}}
#[derive(A)] #[derive(B)]
struct S{a:u32,bbbbbbbb:u64}
enum E{A=1,Bbbbbb=2,C{x:u32,y:u32}}
impl T for S{fn f(&self){} type X=u8; const C:u8=1;}
fn main(){let x=[1,2,3];foo(aaaaaaaaaaaaaaaaaaaa,bbbbbbbbbbbbbbbbbbbbbbbbbbb,cccccccccccccccccccccccc,dddddddd);match x{1=>{}|2=>foo(),_=>{return}}
let s = S{a:a,b:2}; let y = if a {b} else {c}; let v = 0xabcdef; let fl = 1.; let z = try!(q()); let r = 1..2; let ((p)) = 3;
    let _ = aaaaaaaaaaaaaaaaaaaaaaaa.bbbbbbbbbbbbbbbbbbbbb().cccccccccccccccccccccccc().dddddddddddddddddddddd().eeeeeeeeeeeeeee();
    let st = "a very long string a very long string a very long string a very long string a very long string a very long string";
    let Some(x) = opt else { return };
    let (_, _, _) = t; vec![1,2,3]; fooo!(a,b);
    let c = |x| {x+1};
    let sum = aaaaaaaaaaaaaaaaaaaaaaaaaaaaaaaaaaaaaa + bbbbbbbbbbbbbbbbbbbbbbbbbbbbbbbbbbbbbbbbbbbbb + cccccccccccccccccccccccccccccc;


}
extern fn ex(){}
fn g<T>(a:u32,b:u32)->impl Fn(u32)->u32+Send where T:Clone{|x|x}
fn e(){}
'''
def run(args,cfg=None):
    open(src,'w').write(SRC)
    cf=os.path.join(d,'rustfmt.toml')
    if cfg is None:
        if os.path.exists(cf): os.remove(cf)
    else: open(cf,'w').write(cfg)
    r=subprocess.run([RF]+args+[src],capture_output=True,text=True,env=env,cwd=T)
    return r.returncode,open(src).read(),r.stderr
n=0
base=['--config','format_code_in_doc_comments=true']
for name,hint,default in opts:
    if name in('emit_mode','make_backup','print_misformatted_file_names','color','unstable_features','required_version','verbose'): continue
    if hint.startswith('[<'): continue
    if hint.startswith('['):
        vals=[v.split(' ')[0] for v in hint[1:-1].split('|')]; tomlv=lambda v:'"%s"'%v
    elif hint=='<boolean>': vals=['true','false']; tomlv=lambda v:v
    elif hint=='<unsigned integer>': vals=['0','2','30','99','120']; tomlv=lambda v:v
    else: continue
    for v in vals:
        a=run(base,'%s = %s\n'%(name,tomlv(v)))
        b=run(base+['--config','%s=%s'%(name,v)],None)
        c=run(base+['--config-path',os.path.join(T,'c.toml')],None) if False else None
        n+=2
        if a[0]!=b[0] or a[1]!=b[1]:
            print('DIFF',name,v,a[0],b[0]); 
            import difflib
            for l in list(difflib.unified_diff(a[1].splitlines(),b[1].splitlines(),lineterm='',n=0))[:10]: print('   ',l[:150])
print('runs',n); shutil.rmtree(T)
