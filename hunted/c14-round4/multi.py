import subprocess, os, tempfile, shutil, itertools, random, hashlib
RF=os.environ['RF']
T=tempfile.mkdtemp(prefix='c14w.')
home=os.path.join(T,'home'); os.mkdir(home)
env=dict(os.environ,HOME=home); env.pop('XDG_CONFIG_HOME',None)
SRC='''//! ```
//! fn f(){let x=[1,2,3];foo(aaaaaaaaaaaaaaaaaaaa,bbbbbbbbbbbbbbbbbbbbbbbbbbb,cccccccccccccccccccccccc,dddddddd);}
//! ```
use std::{b,a};
use std::c;
macro_rules! m{($a:expr)=>{foo(aaaaaaaaaaaaaaaaaaaa,bbbbbbbbbbbbbbbbbbbbbbbbbbb,cccccccccccccccccccccccc,$a);}}
fn main(){let x=[1,2,3];foo(aaaaaaaaaaaaaaaaaaaa,bbbbbbbbbbbbbbbbbbbbbbbbbbb,cccccccccccccccccccccccc,dddddddd);match x{1=>{}_=>{}}
let s = S{a:1,b:2}; let y = if a {b} else {c}; let v = 0xabcdef; let z = try!(q());
    let _ = aaaaaaaaaaaaaaaaaaaaaaaa.bbbbbbbbbbbbbbbbbbbbb().cccccccccccccccccccccccc().dddddddddddddddddddddd().eeeeeeeeeeeeeee();
}
fn g(a:u32,b:u32)->impl Fn(u32)->u32+Send{|x|x}
'''
cfgs={'.':None,
 'a':('rustfmt.toml','max_width = 50\nhard_tabs = true\nformat_code_in_doc_comments = true\n'),
 'b':('.rustfmt.toml','edition = "2024"\nmatch_block_trailing_comma = true\nimports_granularity="Crate"\n'),
 'b/c':('rustfmt.toml','version = "Two"\nfn_call_width = 20\nuse_try_shorthand = true\n'),
 'd':('rustfmt.toml','style_edition = "2024"\nuse_small_heuristics = "Max"\nhex_literal_case = "Upper"\n'),
 'd/e':('.rustfmt.toml','merge_imports = true\nfn_args_layout = "Vertical"\ntab_spaces = 2\nnewline_style="Windows"\n'),
 'd/e/f':None,
 'g':('rustfmt.toml','use_small_heuristics = "Off"\ngroup_imports = "StdExternalCrate"\nspace_before_colon = true\n'),
}
def setup(root):
    os.makedirs(root)
    files=[]
    for d,c in cfgs.items():
        p=os.path.join(root,d); os.makedirs(p,exist_ok=True)
        if c: open(os.path.join(p,c[0]),'w').write(c[1])
        f=os.path.join(p,'x.rs'); open(f,'w').write(SRC); files.append(f)
    return files
def read(files): return [open(f,'rb').read() for f in files]
root=os.path.join(T,'p')
files=setup(root)
for f in files:
    subprocess.run([RF,f],env=env,capture_output=True)
ref=read(files)
print([hashlib.md5(r).hexdigest()[:6] for r in ref])
random.seed(1)
extra_sets=[[],['--config','max_width=70'],['--edition','2021'],['--style-edition','2024'],['--config','version=Two,use_small_heuristics=Max']]
for extra in extra_sets:
    shutil.rmtree(root); files=setup(root)
    for f in files: subprocess.run([RF]+extra+[f],env=env,capture_output=True)
    ref=read(files)
    for trial in range(6):
        shutil.rmtree(root); files=setup(root)
        order=list(range(len(files))); random.shuffle(order)
        r=subprocess.run([RF]+extra+[files[i] for i in order],env=env,capture_output=True,text=True)
        got=read(files)
        for i,(a,b) in enumerate(zip(ref,got)):
            if a!=b: print('MISMATCH',extra,order,files[i])
print('done')
shutil.rmtree(T)
