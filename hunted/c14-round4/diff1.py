import subprocess, os, re, tempfile, sys, shutil
RF=os.environ['RF']
helptxt=subprocess.run([RF,'--unstable-features','--help=config'],capture_output=True,text=True).stdout
opts=[]
for line in helptxt.splitlines():
    m=re.match(r'^ +([a-z_]+) (\[[^\]]*\]|<[^>]*>) Default: (\S*)',line)
    if m: opts.append((m.group(1),m.group(2),m.group(3)))
T=tempfile.mkdtemp(prefix='c14w.')
home=os.path.join(T,'home'); os.mkdir(home)
env=dict(os.environ,HOME=home); env.pop('XDG_CONFIG_HOME',None)
d=os.path.join(T,'p'); os.mkdir(d)
src=os.path.join(d,'x.rs'); open(src,'w').write('fn main() {}\n')
def run(args,cfg=None):
    cf=os.path.join(d,'rustfmt.toml')
    if cfg is None:
        if os.path.exists(cf): os.remove(cf)
    else: open(cf,'w').write(cfg)
    r=subprocess.run([RF]+args,capture_output=True,text=True,env=env,cwd=T)
    return r.returncode,r.stdout,r.stderr
n=0
for name,hint,default in opts:
    if hint.startswith('[<'): continue
    if hint.startswith('['):
        vals=[v.split(' ')[0] for v in hint[1:-1].split('|')]
        tomlv=lambda v:'"%s"'%v
    elif hint=='<boolean>': vals=['true','false']; tomlv=lambda v:v
    elif hint=='<unsigned integer>': vals=['0','1','7','50','99','100','101','250']; tomlv=lambda v:v
    elif hint=='<string>': vals=['1.8.0']; tomlv=lambda v:'"%s"'%v
    else: print('skip',name,hint); continue
    for v in vals:
        a=run(['--print-config','current',src],'%s = %s\n'%(name,tomlv(v)))
        b=run(['--print-config','current','--config','%s=%s'%(name,v),src],None)
        n+=2
        if a[0]!=b[0] or a[1]!=b[1]:
            print('DIFF file vs --config',name,v,a[0],b[0])
            al=a[1].splitlines(); bl=b[1].splitlines()
            for x,y in zip(al,bl):
                if x!=y: print('   ',x,'|',y)
            if len(al)!=len(bl): print('   len',len(al),len(bl), a[2][:200], b[2][:200])
        # roundtrip
        if a[0]==0:
            dump=os.path.join(T,'dump.toml'); open(dump,'w').write(a[1])
            c=run(['--print-config','current','--config-path',dump,src],None); n+=1
            if c[1]!=a[1]:
                print('ROUNDTRIP',name,v)
                for x,y in zip(a[1].splitlines(),c[1].splitlines()):
                    if x!=y: print('   ',x,'|',y)
print('runs',n)
shutil.rmtree(T)
