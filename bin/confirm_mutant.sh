#!/bin/bash
# usage: confirm_mutant.sh <id>   -- worktree /tmp/wt/<id> has the change applied (patch in /verif/seeded/<id>/patch.diff)
# Confirms: patch applies to pinned commit, builds, demo fails with it / passes without it, pinned suite passes.
id=$1; wt=/tmp/wt/$id; sd=/verif/seeded/$id
cd $wt || exit 2
git -C $wt stash -q 2>/dev/null; git -C $wt checkout -q -- . ; 
git -C $wt apply --check $sd/patch.diff || { echo "PATCH DOES NOT APPLY"; exit 1; }
git -C $wt apply $sd/patch.diff
export CARGO_NET_OFFLINE=true
export LD_LIBRARY_PATH=$(python3 -c "import json;print(json.load(open(\"/verif/.cache/toolinfo.json\"))[\"sysroot_lib\"])")
cargo build --offline --bins 2>&1 | tail -1
demo=$sd/demo.sh
# unchanged build: a private build of /repo HEAD (never the shared cache, which other runs may rebuild)
U=/tmp/wt/ubuild; if [ ! -d /tmp/wt/urepo ]; then git -C /repo worktree add -q --detach /tmp/wt/urepo HEAD; fi; git -C /tmp/wt/urepo checkout -q --detach $(git -C /repo rev-parse HEAD); (cd /tmp/wt/urepo && CARGO_TARGET_DIR=$U cargo build --offline --bins 2>&1 | tail -1)
bash $demo $U/debug > /tmp/wt/$id.demo_orig.log 2>&1; o=$?
bash $demo $wt/target/debug > /tmp/wt/$id.demo_mut.log 2>&1; m=$?
echo "demo on unchanged tree: exit $o ; demo on mutant: exit $m"
cargo test --offline --no-fail-fast 2>&1 | grep -E "^test result|FAILED|failed" | head -20 > /tmp/wt/$id.tests.log
cat /tmp/wt/$id.tests.log
if [ $o -eq 0 ] && [ $m -ne 0 ] && ! grep -q "FAILED\|[1-9][0-9]* failed" /tmp/wt/$id.tests.log; then echo "CONFIRMED $id"; else echo "NOT CONFIRMED $id"; fi
