#!/usr/bin/env python3
"""Regenerates MANIFEST.json from the table below (kept in one place so it is always valid)."""
import json
import os

HERE = os.path.dirname(os.path.dirname(os.path.abspath(__file__)))

NA_PURE = {
    "C01": "pure function of (source text, configuration): meaning preservation is decided by re-lexing/re-parsing input and output; no schedule, clock, fault, stream or multi-party dimension for a simulator to search (DESIGN.md s5)",
    "C02": "pure function of (text, config): format(format(x)) = format(x); the two-step history carries no state beyond the text itself (DESIGN.md s5)",
    "C03": "pure function of (text, config): comment multiset of input vs output (DESIGN.md s5)",
    "C04": "pure function of (text, config): byte-wise survival of skip-marked nodes; whole-file opt-outs are decided before any I/O (DESIGN.md s5)",
    "C07": "pure function of the emitted buffer and config (line widths / trailing blanks vs FormatReport) (DESIGN.md s5)",
    "C08": "pure function of (text, config): byte-level whitespace/newline discipline of the emitted text (DESIGN.md s5)",
    "C09": "differential comparison of two pure functions (pinned release vs working tree); no fault or history dimension (DESIGN.md s5)",
    "C10": "pure function of a run of use declarations and config (DESIGN.md s5)",
    "C11": "comparator algebra and permutation invariance of a pure function (DESIGN.md s5)",
    "C12": "pure function of a pair of texts; emitters only ever see write_all, so stream faults cannot change the bytes (the cross-mode agreement that involves the process surface is part of C06) (DESIGN.md s5)",
    "C17": "pure function of (text, line ranges, config) (DESIGN.md s5)",
}

CHECKS = {}  # filled from sim/props/*.py that exist and are listed in ENABLED
ENABLED = json.load(open(os.path.join(HERE, "bin", "enabled.json")))

TEXT = {
    "C16": ("exploration",
            "Seeded exploration with real processes (only a process shows an abort, stack overflow or signal): lane B takes ~1840 real source files, damages their stored bytes with 0-3 token-level mutations (delete, duplicate, swap, truncate incl. mid-token, delimiter imbalance, non-ASCII insertion, invalid UTF-8), draws a swarm configuration with a usable page, delivers the text as root file, as out-of-line module or on stdin, optionally behind a nesting amplifier of up to 32 levels, and monitors exit status / signal / stderr / ICE files; lane C injects a panic at each of the seven catch_unwind containment boundaries (1st..3rd / every hit) and checks that it is contained, that nothing is written, and that the rest of the input is formatted as without the fault. Violations are keyed by panic site.",
            "Sampling of an input x configuration space; timeouts are inconclusive, never violations; the dev profile is what runs.",
            "deterministic simulation: stored-byte corruption and cooperative panic injection, process-level abnormal-termination monitor", "s4 C16"),
    "C19": ("exploration",
            "Seeded exploration: the driver draws an edit script over a small tree and renders the unified diff itself (0-3 context lines, several hunks, first/last-line additions, pure deletions, new/deleted/renamed files, omitted counts, git headers, section text with `+N` look-alikes, timestamps, missing final newline), so the post-image ranges are known by construction; the real rustfmt-format-diff reads it through a stdin pipe delivered in two different chunkings (short reads, EINTR) and spawns a recording stub whose status / fatal signal / absence is scripted. Oracles: recorded file arguments and --file-lines ranges equal the constructed ones, no child for an empty result, exit status follows the child, chunking never matters.",
            "Trusts the driver's own diff rendering as ground truth; paths have no spaces.",
            "deterministic simulation: constructed-ground-truth workload over a faulty stdin stream and a scripted child, real binary", "s4 C19"),
    "C18": ("exploration",
            "Seeded exploration over abstract Cargo workspaces (1-4 members, virtual/rooted, seven target kinds, package and per-target editions, path dependencies inside/outside incl. transitive, shared source file, excluded member) x selections x working directories x pass-through options, with the real cargo-fmt, the real `cargo metadata` and a recording stub as $RUSTFMT whose per-invocation exit status / fatal signal is scripted, plus spawn failures (ENOENT, injected EACCES) and a failing cargo. Oracles over the recorded argument vectors and exit status against an independent full `cargo metadata` ground truth; an end-to-end lane runs the real rustfmt.",
            "Trusts cargo's own metadata as ground truth for targets/editions; accepts both readings of 'current package' at a multi-package workspace root.",
            "deterministic simulation: recording child stub + scripted child faults + spawn fault injection around the real cargo-fmt", "s4 C18"),
    "C13": ("exploration",
            "Seeded exploration with the generator as reference model: abstract module trees (name.rs / name/mod.rs / #[path] / inline nesting / cfg_attr(path) / cfg_if! / cfg_match! / stem-directory heuristic with nested or fallback children), decoys, skip / ignore (incl. negations, non-leaf targets) / @generated markers, skip_children, stdin, a file reached twice, three root spellings; the real binary's recorded writes are compared with the model's sets E (must be formatted), X (untouched), D (don't care); fault lane: missing / ambiguous / unreadable module must be an error with no write; 3 hash seeds.",
            "Trusts the module-resolution rules written in the generator (rustc's) and the 30-line gitignore matcher for the generated pattern vocabulary; gray zones of the property's wording go to the don't-care set or are not generated.",
            "deterministic simulation: model-based exploration of the real binary's file-system history (incl. injected errno, hash seeds)", "s4 C13"),
    "C15": ("exploration",
            "Seeded exploration over worlds of 1-5 inputs (sibling and nested directories with their own configs and ignore lists, unparsable and already-formatted inputs): every permutation (n<=3; 6 sampled otherwise) as one real invocation, the n single-input invocations, 3 extra hash seeds, 2 other working directories / path spellings, a perturbed environment and stdin delivery; oracles: per-file result of every run equals the single-input run's, exit status is the maximum, stderr report lines are the multiset union, mutating-operation sequence independent of the hash seed; the same orders replayed in ONE library-API session (Session::override_config + Session::format per input) give the same per-file results and status; an injected I/O error while one input is written leaves the results of the other inputs unchanged.",
            "Trusts per-mode extraction of per-file results by file name; config-level `Warning:` lines are excluded from report comparison.",
            "deterministic simulation: history/permutation and hash-seed search over the real binary with differential oracle", "s4 C15"),
    "C14": ("exploration",
            "Seeded exploration of directory layouts of config files (0-3 levels + sibling, both file names, a directory named like a config, $HOME / $XDG_CONFIG_HOME / HOME unset), 60 options incl. deprecated aliases, CLI override subsets and input orders. Differential oracles on the real binary: each probe's bytes and --print-config dump in the discovered, multi-file invocation equal those of a fresh single-file run handed the reference model's effective options explicitly (in a file, and all on the command line); dump fixpoint; widths vs max_width; unreadable candidate is an error (injected errno on stat/open); three hash seeds per world; the same effective options applied through the library API (Config::override_value in a session driver) give the same bytes.",
            "Trusts the 40-line reference model of discovery/precedence (documented rules), that a rejected reference run means 'skip', and the sealing of the world by the interposer (config probes outside the world answer ENOENT).",
            "deterministic simulation: model-based differential testing of the real binary over simulated fs/env/hash seed", "s4 C14"),
    "C06": ("exploration",
            "Seeded exploration: per world the whole emit-mode matrix (11 modes x path/stdin) and four check/format histories run as real processes on fresh copies of the same tree, with short writes/EINTR on stdout and short reads on stdin; the recorded histories are related to each other: read-only modes perform no mutating libc call, --check exit status vs the set files mode rewrites, byte equality of stdout / files / stdin text, and reconstruction of that text from the json, diff, modified-lines and checkstyle reports.",
            "Trusts the interposer's view of mutating calls (plus an independent before/after snapshot), the `diff` crate's line model for report reconstruction, and forced-off colour.",
            "deterministic simulation: differential oracle over recorded histories of the real binary with stream faults", "s4 C06"),
    "C05": ("exploration",
            "Seeded exploration over worlds of 1-4 crate roots x 15 fault kinds (syntax damage, recoverable lexer errors behind ignore lists, invalid UTF-8, missing/ambiguous/directory module, errno on open/read, four kinds of bad config, bad --config-path, nonexistent root, injected parser panics) x 7 emit modes, with the fault position enumerated over every file of the victim tree; every faulty run of the real binary is judged over its recorded libc-call history and the before/after snapshot, against a fault-free run of the surviving roots.",
            "Trusts the interposer's view of the process, that stdout is the result channel (victim diagnostics go to stderr), and the same binary's fault-free run as the reference formatted text.",
            "deterministic simulation: seeded fault injection (stored-byte corruption, errno, injected panic) over the real binary", "s4 C05"),
    "C20": ("fault_enumeration",
            "Per sampled world every crash point (before the first, after every mutating libc call, four positions inside every write) and every single failing operation (errno per call kind, torn writes, EINTR, short writes) of the real `rustfmt --backup` process is enumerated under the interposer, and the directory left behind is checked against the invariants of the property. Exhaustive per world, sampled over worlds.",
            "Trusts the simfs interposer to see every file-system call of the process (glibc ABI), the operation-granular crash model stated by the property, and the plain files emitter as the source of the reference formatted text.",
            "deterministic simulation: LD_PRELOAD fault/crash enumeration over the real binary", "s4 C20"),
}

# lanes added after the first registration (DESIGN.md s9 lists what forced each of them)
LATER = {
    "C05": " Later lanes: symlinked / hard-linked module files, module files shared by several roots (through #[path] and by a twin root in the same directory), chains of 33-40 nested out-of-line modules, legal short reads / EINTR on every run, write faults (torn write, errno) in plain files mode. With --backup: the temporary sibling cannot be created or written (the source must be untouched). Configuration files that are TOML but not UTF-8.",
    "C06": " Later lanes: several inputs per command line, nested overlapping roots, symlinked module file, make_backup from the project file, errno on the k-th mutating call and on stdout ('reported or harmless'), --check combined with --config emit_mode, opted-out sources on stdin (empty report demanded), and 'a file that files mode rewrites is not reported as clean' for the json / checkstyle / modified-lines reports. A one-file input below the first input's directory with a configuration of its own, compared with the same source on standard input. Lane L: a module declared through dir/../file.rs where dir is a symbolic link elsewhere, with a bystander at the lexically folded path.",
    "C13": " Later lanes: rustc --emit=dep-info cross-check of the model, adversarial decoys, symlinked module files and directories, a stem-named non-directory next to the root, sibling files sharing a child name (fallback vs nested), files that opt out and are named twice, nested cfg_if!/cfg_match!, an ignored file declared through a `..` spelling, a module missing below an inline module. EACCES / ELOOP / EIO on the stat of the project file carrying the exclusions; --backup with a neighbour named <stem>.tmp; a file outside an ignored directory declared from inside it through `..`. --config-path naming the project file's directory in non-canonical spellings.",
    "C14": " Later lanes: legal short reads on every file read, unreadable candidates (errno on stat/open), symlinked configs, both per-user fallbacks, HOME inside the probed chain, absolute spellings with a `..` detour or through a symlinked directory, list-valued options, the library API (override_value and typed setters) through a session driver, lane E (emitter options from the discovered file vs --config-path). Lane F: one key through its dedicated flag and through --config with different values (dump and text are those of the winning value alone). Lane D: --print-config default / minimal printed, written to a fresh path and over a longer file, and reloaded.",
    "C15": " Later lanes: one library API session replaying the orders, overlapping inputs, absolute symlink spellings, every module file formatted inside its tree and alone, I/O error while an earlier input is written, stderr compared across hash seeds, several warning files per tree, --file-lines under several hash seeds, CRLF inputs with the oracle 'multi-input stdout is the single-input outputs in command-line order'. A working directory that cannot be named (getcwd fails) with absolute inputs; HOME naming a directory inside the project.",
    "C16": " Later lanes: arbitrary re-layout, Unicode / lexer white space substitution, use-group grammar, control options (--color, TERM, RUSTFMT_LOG, -v/-q, --file-lines), lane D (I/O error while emitting), lane M (several inputs with unloadable per-directory configs), lane Y (module cycles), lane T (tiny cfg_if!/cfg_match! files, where a missing result is a hang), lane S (seeded constructs on the narrowest usable pages). Single-segment tool attributes (#[rustfmt]). Lane P: the reader of standard output gone (EPIPE + SIGPIPE) in stdin mode; modules declared through absolute paths that are not in normal form under an ignore list.",
    "C18": " Later lanes: dev / build path dependencies, a non-member dependency inside the workspace directory, a same-named second path dependency, the workspace's own manifest and `..` / symlink / relative spellings as --manifest-path, failing canonicalisation, cwd in a member's subdirectory. Outside packages reached only as later entries of a dependency list; a package named twice with -p.",
    "C19": " Later lanes: read error / invalid UTF-8 part-way through stdin, E2BIG on spawn, unwritable stdout (EPIPE / ENOSPC) combined with every child kind, absolute post-image paths, paths shorter than -p, ungrouped alternation filters, git-quoted non-ASCII paths. Filters whose leftmost-first match stops short of a path they match as a whole; a formatter path that is not UTF-8.",
    "C20": " Later lanes: CRLF / BOM sources, leftovers of earlier runs, format-edit-format history, symlinked and hard-linked files, stem collisions, a file reached again by a second input (twin root, module as own input, two-pass texts), files whose own name ends in .tmp / .bk. Directories whose real path cannot be determined (realpath fails) with the configuration named explicitly.",
}

UNDER_CONSTRUCTION = "claimed in DESIGN.md; its simulated check is not registered yet in this revision (under construction)"


def main():
    checks = []
    na = [{"property_id": k, "reason": v} for k, v in sorted(NA_PURE.items())]
    for pid in ("C05", "C06", "C13", "C14", "C15", "C16", "C18", "C19", "C20"):
        if pid in ENABLED and pid in TEXT:
            cat, text, note, tech, ref = TEXT[pid]
            text += LATER.get(pid, "")
            checks.append({
                "property_id": pid,
                "quick_cmd": "./check %s --tier quick" % pid,
                "thorough_cmd": "./check %s --tier thorough" % pid,
                "evidence_file": "/verif/evidence/%s.json" % pid,
                "replay_cmd_template": "./check %s --replay {path}" % pid,
                "engine": "simworld",
                "level_claimed": {"category": cat, "text": text, "design_ref": "DESIGN.md " + ref},
                "level_note": note,
                "technique": tech,
            })
        else:
            na.append({"property_id": pid, "reason": UNDER_CONSTRUCTION})
    hooks = json.load(open(os.path.join(HERE, "bin", "hooks.json")))
    m = {
        "version": 1,
        "setup_cmd": "./bin/setup.sh",
        "hooks": hooks,
        "engines": [{
            "name": "simworld",
            "path": "/verif/sim",
            "serves_properties": [c["property_id"] for c in checks],
            "kind_free_text": "process-level deterministic simulation: real rustfmt/cargo-fmt/rustfmt-format-diff binaries under an LD_PRELOAD interposer (simfs) that logs and faults every libc fs/stream/spawn call and owns getrandom (hash seed) and clock_gettime; seeded Python driver (worlds, histories, fault plans, oracles, minimiser, replay)",
        }],
        "checks": checks,
        "not_applicable": sorted(na, key=lambda d: d["property_id"]),
        "notes": "Exit codes: 0 held, 1 VIOLATION (unlisted), 2 harness error. Known findings: /verif/KNOWN-FINDINGS.txt. VERIF_SEED selects the run; default 20261002.",
    }
    with open(os.path.join(HERE, "MANIFEST.json"), "w") as f:
        json.dump(m, f, indent=1)
        f.write("\n")


if __name__ == "__main__":
    main()
