#!/usr/bin/env python3
"""intake.py <id> "<needs to manifest>"  -- save /tmp/wt/<id>/MUTANT to seeded/<id>, write meta.json, confirm, run own check"""
import json, os, shutil, subprocess, sys
mid, needs = sys.argv[1], sys.argv[2]
prop = "C" + mid[1:3]
src, dst = "/tmp/wt/%s/MUTANT" % mid, "/verif/seeded/%s" % mid
if os.path.isdir(src):
    shutil.copytree(src, dst, dirs_exist_ok=True)
json.dump({"id": mid, "property": prop, "needs_to_manifest": needs,
           "origin": "independent sub-agent given only the property text and a scratch worktree (/tmp/wt/%s)" % mid,
           "confirmed_by": "bin/confirm_mutant.sh %s" % mid, "detected_by": None}, open(dst + "/meta.json", "w"), indent=1)
if "--no-confirm" not in sys.argv:
    r = subprocess.run(["/verif/bin/confirm_mutant.sh", mid], capture_output=True, text=True)
    print("\n".join(l for l in r.stdout.split("\n") if "demo on" in l or "CONFIRMED" in l or "FAILED" in l))
budget = "50"
r = subprocess.run(["/verif/bin/with_mutant.sh", mid, "/verif/check", prop, "--budget", budget], capture_output=True, text=True, cwd="/verif")
v = [l[:260] for l in r.stdout.split("\n") if l.startswith("violation class=")]
print("check %s rc=%d" % (prop, r.returncode)); print("\n".join(v[:4]))
