#!/usr/bin/env python3
"""Run checks against every seeded mutant: matrix.py [--repo DIR] [--props C05,C06,..] [--mutants a,b] [--out FILE]
Applies seeded/<id>/patch(.rebased).diff to the repo, runs ./check <prop> (quick), restores the repo."""
import argparse, json, os, subprocess, sys, glob
HERE = os.path.dirname(os.path.dirname(os.path.abspath(__file__)))
ap = argparse.ArgumentParser()
ap.add_argument("--repo", default=os.environ.get("VERIF_REPO", "/repo"))
ap.add_argument("--props", default="")
ap.add_argument("--mutants", default="")
ap.add_argument("--out", default=os.path.join(HERE, "seeded", "MATRIX.json"))
ap.add_argument("--budget", default="")
ap.add_argument("--all", action="store_true", help="run every check, not only the mutant's own property")
a = ap.parse_args()
repo = a.repo
env = dict(os.environ, VERIF_REPO=repo)
ALL = ["C05", "C06", "C13", "C14", "C15", "C16", "C18", "C19", "C20"]
muts = sorted(os.path.basename(os.path.dirname(p)) for p in glob.glob(os.path.join(HERE, "seeded", "*", "meta.json")))
if a.mutants:
    muts = a.mutants.split(",")
res = {}
if os.path.exists(a.out):
    res = json.load(open(a.out))
def git(*args):
    return subprocess.run(["git", "-C", repo] + list(args), capture_output=True, text=True)
for m in muts:
    meta = json.load(open(os.path.join(HERE, "seeded", m, "meta.json")))
    props = a.props.split(",") if a.props else (ALL if a.all else [meta["property"]])
    if git("diff", "--quiet", "HEAD").returncode != 0:
        print("repo dirty"); sys.exit(2)
    p = os.path.join(HERE, "seeded", m, "patch.rebased.diff")
    if not os.path.exists(p):
        p = os.path.join(HERE, "seeded", m, "patch.diff")
    if git("apply", p).returncode != 0 and git("apply", "--3way", p).returncode != 0:
        print(m, "PATCH DOES NOT APPLY"); git("reset", "-q", "--hard", "HEAD"); res.setdefault(m, {})["_apply"] = "failed"; continue
    try:
        for prop in props:
            r = subprocess.run([os.path.join(HERE, "check"), prop, "--tier", "quick"] + (["--budget", a.budget] if a.budget else []), cwd=HERE, env=env, capture_output=True, text=True)
            v = [l for l in r.stdout.split("\n") if l.startswith("violation class=")]
            res.setdefault(m, {})[prop] = {"rc": r.returncode, "classes": sorted({l.split(" ")[1][6:] for l in v})[:6]}
            print(m, prop, "rc=%d" % r.returncode, res[m][prop]["classes"][:3], flush=True)
    finally:
        git("reset", "-q", "--hard", "HEAD")
    json.dump(res, open(a.out, "w"), indent=1, sort_keys=True)
