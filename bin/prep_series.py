#!/usr/bin/env python3
"""prep_series.py <letter> [props...] -- write /tmp/wt/prompts/<id>.txt and create worktrees for a new series of seeded changes"""
import json, glob, os, subprocess, sys
letter = sys.argv[1]
props = sys.argv[2:] or ["C05", "C06", "C13", "C14", "C15", "C16", "C18", "C19", "C20"]
taken = {}
for p in sorted(glob.glob('/verif/seeded/*/meta.json')):
    m = json.load(open(p)); taken.setdefault(m['property'], []).append(m['needs_to_manifest'])
for pid in props:
    wt = pid.lower() + letter
    base = open('/tmp/wt/prompts/%sa.txt' % pid.lower()).read().replace('/tmp/wt/' + pid.lower() + 'a', '/tmp/wt/' + wt)
    base += ('\n\nSeeded defects that have ALREADY been produced by others for this property (described by what they need in order to manifest) and must NOT be repeated -- pick a different mechanism in a different code path:\n- '
             + '\n- '.join(taken.get(pid, [])) +
             '\nPrefer a defect that only shows under a fault (I/O error, short read/write, interrupted call, process killed at a particular point, a child process failing in a particular way), a particular sequence of runs or ordering of inputs, a particular environment (cwd, HOME, XDG_CONFIG_HOME, relative vs absolute paths, symlinks, hash-map iteration order), or through two cooperating sites -- rather than one keyed to a rare input text. Be creative: look at code paths nobody above has touched yet.\nNote: the worktree is at the current head of the repository, which already contains a number of small bug fixes and a `src/verif_hooks.rs` module (test-only fault points behind `--cfg rustfmt_verif`); leave those alone. Do not use `git stash` (the stash is shared between worktrees).')
    open('/tmp/wt/prompts/%s.txt' % wt, 'w').write(base)
    subprocess.run("git -C /repo worktree add -q --detach /tmp/wt/%s HEAD && cp -a /repo/target /tmp/wt/%s/target" % (wt, wt), shell=True, check=True)
    print(wt)
