#!/usr/bin/env python3
"""slowcases.py <source-substring> [ncases] [seed] [timeout] -- regenerate the C16 lane-B cases whose corpus source
matches, run each with a long per-process cap and report how long it really takes (is a counted timeout slowness or a
hang?)"""
import os, sys, time
HERE = os.path.dirname(os.path.dirname(os.path.abspath(__file__)))
sys.path.insert(0, HERE)
from sim import core, engine
from sim.engine import Rng, mix
from sim.props import c16
sub, n = sys.argv[1], int(sys.argv[2]) if len(sys.argv) > 2 else 6000
seed = int(sys.argv[3]) if len(sys.argv) > 3 else 1
cap = float(sys.argv[4]) if len(sys.argv) > 4 else 300
core.build()
core.PROC_TIMEOUT = cap
for i in range(n):
    rng = Rng(mix(seed, "C16", i))
    case = c16.generate(rng, "quick")
    if case.get("lane") == "B" and sub in str(case.get("source")):
        t = time.time()
        v = c16.execute(case)
        dt = time.time() - t
        print(i, "%.2f" % dt, flush=True)
        if dt > 5:
            print(i, case["source"], case["mutations"], "%.1fs" % dt, "inconclusive=%d" % v.inconclusive, {k: case["config"].get(k) for k in ("max_width", "tab_spaces")}, flush=True)
            import json
            json.dump(case, open("/tmp/slow-%d.json" % i, "w"))
