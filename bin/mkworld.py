#!/usr/bin/env python3
"""materialise the world of a replay file for manual inspection: mkworld.py <replay.json> <dir>"""
import json, sys, os, shutil
sys.path.insert(0, os.path.dirname(os.path.dirname(os.path.abspath(__file__))))
from sim import core
d = json.load(open(sys.argv[1]))
if os.path.exists(sys.argv[2]):
    shutil.rmtree(sys.argv[2])
core.build_world(sys.argv[2], d["case"]["world"])
c = dict(d["case"]); c.pop("world")
print(json.dumps(c, indent=1)[:3000])
