#!/usr/bin/env python3-vt
import json, glob, sys, jsonschema
jsonschema.validate(json.load(open('/verif/MANIFEST.json')), json.load(open('/root/.vp/MANIFEST.schema.json')))
es = json.load(open('/root/.vp/EVIDENCE.schema.json'))
for p in sorted(glob.glob('/verif/evidence/*.json')):
    jsonschema.validate(json.load(open(p)), es)
    print('ok', p)
print('manifest ok')
