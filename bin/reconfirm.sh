#!/bin/bash
# usage: reconfirm.sh <id>...  -- on /repo's current head: the (rebased) patch applies and builds, the demonstration
# passes on the unchanged build and fails on the changed one.  Uses the private worktree / cache of with_mutant.sh.
export LD_LIBRARY_PATH=$(python3 -c "import json;print(json.load(open('/verif/.cache/toolinfo.json'))['sysroot_lib'])")
export PATH=$(dirname $(python3 -c "import json;print(json.load(open('/verif/.cache/toolinfo.json'))['cargo'])")):$PATH
(cd /verif && python3 -c "
import sys; sys.path.insert(0,'/verif')
from sim import core; core.build()" >/dev/null 2>&1)
for id in "$@"; do
  demo=/verif/seeded/$id/demo.sh; [ -f /verif/seeded/$id/demo.rebased.sh ] && demo=/verif/seeded/$id/demo.rebased.sh
  /verif/bin/with_mutant.sh $id python3 -c "
import sys, shutil; sys.path.insert(0,'/verif')
from sim import core; core.build()
shutil.rmtree('/tmp/wt/mbin', ignore_errors=True); shutil.copytree(core.BIN, '/tmp/wt/mbin', ignore=shutil.ignore_patterns('deps','build','incremental','.fingerprint','examples'))" >/dev/null 2>&1 || { echo "$id BUILD-FAILED"; continue; }
  (cd /tmp && bash $demo /verif/.cache/target/debug >/tmp/wt/$id.o.log 2>&1); o=$?
  (cd /tmp && bash $demo /tmp/wt/mbin >/tmp/wt/$id.m.log 2>&1); m=$?
  if [ $o -eq 0 ] && [ $m -ne 0 ]; then echo "$id confirmed (unchanged $o, changed $m)"; else echo "$id NOT-CONFIRMED (unchanged $o, changed $m)"; fi
done
