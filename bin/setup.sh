#!/bin/sh
# Build the framework from files on disk only (offline): interposer, stub, tool info, tools under test.
set -e
cd "$(dirname "$0")/.."
export CARGO_NET_OFFLINE=true
rm -f .cache/toolinfo.json
PYTHONHASHSEED=0 python3 - <<'PY'
import sys
sys.path.insert(0, ".")
from sim import core
core.compute_toolinfo()
t = core.build()
d = core.build_driver()
print("setup ok: build %.1fs, tools in %s, API driver %s" % (t, core.BIN, d))
PY
