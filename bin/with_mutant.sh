#!/bin/bash
# usage: with_mutant.sh <id> <command...>
# Runs <command> (e.g. ./check C05) against a private worktree of /repo's HEAD with seeded/<id>/patch applied,
# using a private build cache, so that /repo itself and the default cache are never touched.
id=$1; shift
M=/tmp/wt/mrepo; export VERIF_CACHE=/tmp/wt/mcache
head=$(git -C /repo rev-parse HEAD)
if [ ! -d $M ]; then git -C /repo worktree add -q --detach $M $head || exit 2; fi
git -C $M reset -q --hard; git -C $M checkout -q --detach $head || exit 2
p=/verif/seeded/$id/patch.diff; [ -f /verif/seeded/$id/patch.rebased.diff ] && p=/verif/seeded/$id/patch.rebased.diff
if ! git -C $M apply $p 2>/dev/null; then
  git -C $M apply --3way $p >/dev/null 2>&1 || { echo "PATCH $id DOES NOT APPLY"; git -C $M reset -q --hard; exit 3; }
fi
VERIF_REPO=$M "$@"; rc=$?
git -C $M reset -q --hard
exit $rc
