#!/bin/bash
# usage: with_mutant.sh <id> <command...>  -- apply /verif/seeded/<id>/patch.diff to /repo, run, restore /repo
id=$1; shift
git -C /repo diff --quiet HEAD || { echo "/repo is dirty"; exit 2; }
p=/verif/seeded/$id/patch.diff; [ -f /verif/seeded/$id/patch.rebased.diff ] && p=/verif/seeded/$id/patch.rebased.diff
if ! git -C /repo apply $p 2>/dev/null; then
  git -C /repo apply --3way $p >/dev/null 2>&1 || { echo "PATCH $id DOES NOT APPLY"; git -C /repo reset -q --hard HEAD; exit 3; }
fi
"$@"; rc=$?
git -C /repo reset -q --hard HEAD
exit $rc
