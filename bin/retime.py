#!/usr/bin/env python3
"""retime.py <case.json> [cap] -- run one saved C16 case again with a long cap; prints the wall time (slow or hanging?)"""
import json, os, sys, time
HERE = os.path.dirname(os.path.dirname(os.path.abspath(__file__)))
sys.path.insert(0, HERE)
from sim import core
from sim.props import c16
case = json.load(open(sys.argv[1]))
core.build()
core.PROC_TIMEOUT = float(sys.argv[2]) if len(sys.argv) > 2 else 300
t = time.time()
v = c16.execute(case)
print("%.1fs inconclusive=%d violations=%s" % (time.time() - t, v.inconclusive, [x.cls for x in v.violations]))
