#!/usr/bin/env python3
"""Regenerate the table of seeded changes in DESIGN.md (between the SEEDED-TABLE markers) from seeded/*/meta.json
and seeded/MATRIX.json."""
import json, glob, os, re
HERE = os.path.dirname(os.path.dirname(os.path.abspath(__file__)))
mx = {}
p = os.path.join(HERE, "seeded", "MATRIX.json")
if os.path.exists(p):
    mx = json.load(open(p))
rows = ["| id | property | needs to manifest | caught by (quick tier; violation classes) | generator / oracle extension it forced |",
        "|----|----------|-------------------|-------------------------------------------|----------------------------------------|"]
n = caught = neutral = 0
for mp in sorted(glob.glob(os.path.join(HERE, "seeded", "*", "meta.json"))):
    m = json.load(open(mp))
    n += 1
    r = mx.get(m["id"], {})
    by = []
    for prop in sorted(r):
        if isinstance(r[prop], dict) and r[prop].get("rc") in (1, 2) and r[prop].get("classes"):
            cls = [c.split("|")[0].split(":", 1)[1] for c in r[prop]["classes"][:2]]
            by.append("%s (%s)" % (prop, ", ".join("`%s`" % c for c in cls)))
    if m.get("status"):
        by = []  # (a result from before the neutralising repair says nothing about the current head)
    if by:
        caught += 1
    needs = m["needs_to_manifest"].replace("|", "\\|")
    if len(needs) > 230:
        needs = needs[:227] + "..."
    status = m.get("status")
    if status:
        neutral += 1
    col = "; ".join(by) or ("-- " + status if status else "(missed in the last matrix run)" if r else "(not in MATRIX.json yet)")
    rows.append("| %s | %s | %s | %s | %s |" % (m["id"], m["property"], needs, col, m.get("extension") or ""))
rows.append("")
rows.append("%d seeded changes; %d of them caught by their own property's quick check in `seeded/MATRIX.json`; %d no longer manifest on the current head (neutralised by a later repair, see their row)." % (n, caught, neutral))
s = open(os.path.join(HERE, "DESIGN.md")).read()
a, b = s.index("<!-- SEEDED-TABLE-BEGIN -->"), s.index("<!-- SEEDED-TABLE-END -->")
s = s[:a] + "<!-- SEEDED-TABLE-BEGIN -->\n" + "\n".join(rows) + "\n" + s[b:]
open(os.path.join(HERE, "DESIGN.md"), "w").write(s)
print(n, caught)
