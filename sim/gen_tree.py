"""Abstract module-tree model and its rendering.

The model is drawn first; the directory tree is rendered from it; the expected
sets (reachable E, must-not-touch X, don't-care D) are computed from the model
with the language's rules written down here once, not by parsing text.

Rules encoded (rustc's `default_submod_path` / `mod_dir_path`):
  * a file reached as `<dir>/<name>.rs` is not mod-rs-like: its children live in `<dir>/<name>/`
  * a file reached as `<dir>/<name>/mod.rs`, or through #[path], and the crate root are
    mod-rs-like: children live in the file's own directory
  * `mod inl { mod c; }` adds `inl/` to the children directory
  * `#[path = "p"] mod n;` (directly in a file) is `<dir of declaring file>/p`
"""
import os

from . import gen_rust

MODNAMES = ["ma", "mb", "mc", "md", "me", "mf", "mg", "mh", "mi", "mj", "mk", "ml"]


class Tree:
    def __init__(self, base, root_name):
        self.base = base  # directory of the crate root, relative to world root
        self.root = os.path.join(base, root_name)
        self.files = {}  # rel -> text
        self.reach = []  # files the language reaches from root, visitation order (root first)
        self.decoys = []
        self.skipped = []  # reachable by the language, but opted out of formatting (X)
        self.dontcare = []  # D
        self.nfiles = 0
        self.features = set()
        self.decls = []  # (declaring file, name, target file) for every out-of-line declaration
        self.meta = {}

    def to_json(self):
        return {
            "base": self.base, "root": self.root, "reach": self.reach, "decoys": self.decoys,
            "skipped": self.skipped, "dontcare": self.dontcare, "features": sorted(self.features),
            "decls": self.decls, "meta": self.meta,
        }


def gen_crate(rng, base="c", root_name=None, max_files=5, depth=3, feats=(), body=None, suffix=""):
    """feats: subset of {"modrs","path","inline","cfg_if","cfg_match","cfg_attr_path","decoys","pathext","samestem"}"""
    feats = set(feats)
    root_name = root_name or rng.choice(["main.rs", "lib.rs", "root.rs", "src/main.rs", "src/lib.rs"])
    t = Tree(base, root_name)
    body = body or (lambda r: gen_rust.unformatted(r, 1 + r.below(2)))
    budget = [rng.range(1, max_files) - 1]
    names = [n + suffix for n in MODNAMES]

    def fresh():
        return names.pop(0) if names else "mz%d" % len(t.files)

    def gen_file(rel, childdir, d):
        """childdir: directory where `mod n;` children of this file live"""
        t.reach.append(rel)
        lines = []
        nchild = 0
        if d < depth and budget[0] > 0:
            nchild = rng.range(0 if d > 0 else 1, min(3, budget[0]))
        for _ in range(nchild):
            if budget[0] <= 0:
                break
            budget[0] -= 1
            name = fresh()
            lines.append(gen_decl(rel, childdir, name, d))
        text = "".join(lines) + body(rng)
        t.files[rel] = text

    def gen_decl(decl_file, childdir, name, d):
        k = rng.below(100)
        declfile_dir = os.path.dirname(decl_file)
        if "inline" in feats and k < 15:
            t.features.add("inline")
            inl = "in_" + name
            target, cdir = place(os.path.join(childdir, inl), name)
            t.decls.append((decl_file, name, target))
            gen_file(target, cdir, d + 1)
            return "mod %s {\n    mod %s;\n fn  q( ){ }\n}\n" % (inl, name)
        if "path" in feats and k < 35:
            t.features.add("path")
            ext = ".rs"
            if "pathext" in feats and rng.chance(40):
                ext = rng.choice([".inc", "", ".rs.in", ".b.rs"])
                t.features.add("pathext")
            sub = rng.choice(["", "", "px/", "../" + os.path.basename(declfile_dir or "x") + "/"]) if declfile_dir else rng.choice(["", "px/"])
            pth = "%sp_%s%s" % (sub, name, ext)
            target = os.path.normpath(os.path.join(declfile_dir, pth))
            t.decls.append((decl_file, name, target))
            gen_file(target, os.path.dirname(target), d + 1)
            return '#[path = "%s"]\nmod %s;\n' % (pth, name)
        if "cfg_attr_path" in feats and k < 42:
            # both the default file and the cfg_attr(path) alternate are reachable (under some cfg)
            t.features.add("cfg_attr_path")
            alt = os.path.normpath(os.path.join(declfile_dir, "alt_%s.rs" % name))
            t.decls.append((decl_file, name, alt))
            gen_file(alt, os.path.dirname(alt), d + 1)
            txt = '#[cfg_attr(feature = "x", path = "alt_%s.rs")]\nmod %s;\n' % (name, name)
            if rng.chance(60):
                target, cdir = place(childdir, name)
                t.decls.append((decl_file, name, target))
                gen_file(target, cdir, d + 1)
            return txt
        if "cfg_if" in feats and k < 62:
            t.features.add("cfg_if")
            target, cdir = place(childdir, name)
            t.decls.append((decl_file, name, target))
            gen_file(target, cdir, d + 1)
            other = "fn  nothing( ){ }"
            if budget[0] > 0 and names and rng.chance(60):
                # a second declaration later in the same macro call
                budget[0] -= 1
                n2 = fresh()
                t2, c2 = place(childdir, n2)
                t.decls.append((decl_file, n2, t2))
                gen_file(t2, c2, d + 1)
                other = "mod %s;" % n2
            return "cfg_if::cfg_if! {\n    if #[cfg(unix)] {\n        mod %s;\n    } else {\n        %s\n    }\n}\n" % (name, other)
        if "cfg_match" in feats and k < 72:
            t.features.add("cfg_match")
            target, cdir = place(childdir, name)
            t.decls.append((decl_file, name, target))
            gen_file(target, cdir, d + 1)
            return "std::cfg_match! {\n    unix => {\n        mod %s;\n    }\n    _ => {\n        fn  nothing2( ){ }\n    }\n}\n" % name
        target, cdir = place(childdir, name)
        t.decls.append((decl_file, name, target))
        gen_file(target, cdir, d + 1)
        vis = rng.choice(["", "pub ", "pub(crate) "])
        return "%smod %s;\n" % (vis, name)

    def place(childdir, name):
        """choose name.rs or name/mod.rs; returns (file, children dir)"""
        if "modrs" in feats and rng.chance(40):
            t.features.add("modrs")
            return os.path.join(childdir, name, "mod.rs"), os.path.join(childdir, name)
        return os.path.join(childdir, name + ".rs"), os.path.join(childdir, name)

    gen_file(t.root, os.path.dirname(t.root), 0)

    if "symlinkmod" in feats:
        # two modules sharing one module file through a symbolic link; each has its own children directory
        rd = os.path.dirname(t.root)
        a, b, inn = "sla" + suffix, "slb" + suffix, "slin" + suffix
        t.files[os.path.join(rd, a, "mod.rs")] = "mod %s;\n" % inn + body(rng)
        t.files[os.path.join(rd, a, inn + ".rs")] = body(rng)
        t.files[os.path.join(rd, b, "mod.rs")] = {"symlink": "../%s/mod.rs" % a}
        t.files[os.path.join(rd, b, inn + ".rs")] = body(rng)
        t.files[t.root] = "mod %s;\nmod %s;\n" % (a, b) + t.files[t.root]
        t.reach += [os.path.join(rd, a, "mod.rs"), os.path.join(rd, a, inn + ".rs"), os.path.join(rd, b, inn + ".rs")]
        t.decls += [(t.root, a, os.path.join(rd, a, "mod.rs")), (os.path.join(rd, a, "mod.rs"), inn, os.path.join(rd, a, inn + ".rs")),
                    (os.path.join(rd, b, "mod.rs"), inn, os.path.join(rd, b, inn + ".rs"))]
        t.features.add("symlinkmod")
    if "samestem" in feats and len(t.reach) >= 1 and rng.chance(50):
        # a #[path] target sharing stem and directory with a reachable .rs file (x.rs / x.inc)
        victim = rng.choice(t.reach)
        stem = os.path.splitext(victim)[0]
        twin = stem + ".inc"
        if twin not in t.files and os.path.dirname(victim) == os.path.dirname(t.root):
            t.features.add("samestem")
            t.files[twin] = body(rng)
            t.reach.append(twin)
            t.decls.append((t.root, "twin", twin))
            t.files[t.root] = '#[path = "%s"]\nmod twin;\n' % os.path.basename(twin) + t.files[t.root]
    if "decoys" in feats:
        dirs = sorted({os.path.dirname(f) for f in t.files})
        for _ in range(rng.range(1, 3)):
            dd = rng.choice(dirs)
            rel = os.path.join(dd, "decoy_%s.rs" % rng.choice(["a", "b", "c", "d"]))
            if rel not in t.files:
                t.files[rel] = gen_rust.tiny_unformatted("decoy")
                t.decoys.append(rel)
    t.nfiles = len(t.files)
    return t
