/*
 * simfs -- LD_PRELOAD interposer: the seam between the real rustfmt binaries
 * and the simulator.  Logs every file-system / stream / spawn operation that
 * touches the simulated world, executes the fault plan, owns getrandom (hash
 * seed) and clock_gettime (virtual clock).
 *
 * Pure function of (plan, call sequence): draws nothing at random, reads no
 * real clock.  Active only when SIMFS_DIR is set and the executable's basename
 * is one of the tools under test; otherwise every wrapper is a pass-through.
 *
 * Environment:
 *   SIMFS_DIR   directory for logs (p<idx>.log), the process counter and "plan"
 *   SIMFS_ROOT  absolute path of the world root (no trailing slash)
 *   SIMFS_SEED  hash seed (decimal u64) for getrandom
 *
 * Plan file ($SIMFS_DIR/plan), one rule per line, '#' comments:
 *   <proc|*> <opclass> <nth|0> <path|*> <action> [a1] [a2]
 *   opclass: open openw read write rename unlink stat mkdir spawn wait realpath getcwd
 *            fsync any
 *   path:    path relative to root ("@0" "@1" "@2" for the std streams), or "*"
 *            a leading '%' means "ends with"
 *   nth:     fire on the nth matching call of this rule (1-based); 0 = every call
 *   action:  errno E | short n[,n..] | eintr k | torn n E | crash_before |
 *            crash_after | crash_mid n
 */
#define _GNU_SOURCE
#include <dlfcn.h>
#include <errno.h>
#include <fcntl.h>
#include <limits.h>
#include <signal.h>
#include <spawn.h>
#include <stdarg.h>
#include <stdint.h>
#include <stdio.h>
#include <stdlib.h>
#include <string.h>
#include <sys/file.h>
#include <sys/stat.h>
#include <sys/syscall.h>
#include <sys/types.h>
#include <sys/uio.h>
#include <sys/wait.h>
#include <time.h>
#include <unistd.h>

#define MAXFD 4096
#define MAXRULES 64

static int active = 0, inited = 0, in_hook = 0;
static int logfd = -1;
static int proc_idx = 0;
static unsigned long seq = 0;
static char root[PATH_MAX];
static size_t rootlen = 0;
static char *fdpath[MAXFD];
static uint64_t rng_state = 0;
static uint64_t vclock_ns = 1000000000ull;

static unsigned long cnt_ops = 0, cnt_clock = 0, cnt_rand = 0;

enum { A_ERRNO = 1, A_SHORT, A_EINTR, A_TORN, A_CRASH_BEFORE, A_CRASH_AFTER, A_CRASH_MID };

struct rule {
    int proc; /* -1 any */
    char opclass[32];
    long nth;
    char path[PATH_MAX];
    int action;
    long a1, a2;
    long sizes[16];
    int nsizes;
    long hits;  /* matching calls so far */
    long fired; /* times it fired */
    long eintr_left;
};
static struct rule rules[MAXRULES];
static int nrules = 0;

/* ---- real functions ---- */
static int (*r_open)(const char *, int, ...);
static int (*r_open64)(const char *, int, ...);
static int (*r_openat)(int, const char *, int, ...);
static int (*r_openat64)(int, const char *, int, ...);
static int (*r_creat)(const char *, mode_t);
static ssize_t (*r_read)(int, void *, size_t);
static ssize_t (*r_pread64)(int, void *, size_t, off_t);
static ssize_t (*r_readv)(int, const struct iovec *, int);
static ssize_t (*r_write)(int, const void *, size_t);
static ssize_t (*r_writev)(int, const struct iovec *, int);
static int (*r_close)(int);
static int (*r_rename)(const char *, const char *);
static int (*r_renameat)(int, const char *, int, const char *);
static int (*r_renameat2)(int, const char *, int, const char *, unsigned);
static int (*r_unlink)(const char *);
static int (*r_unlinkat)(int, const char *, int);
static int (*r_rmdir)(const char *);
static int (*r_mkdir)(const char *, mode_t);
static int (*r_link)(const char *, const char *);
static int (*r_symlink)(const char *, const char *);
static int (*r_chmod)(const char *, mode_t);
static int (*r_truncate)(const char *, off_t);
static int (*r_ftruncate)(int, off_t);
static int (*r_ftruncate64)(int, off_t);
static int (*r_stat)(const char *, struct stat *);
static int (*r_lstat)(const char *, struct stat *);
static int (*r_stat64)(const char *, struct stat64 *);
static int (*r_lstat64)(const char *, struct stat64 *);
static int (*r_fstatat)(int, const char *, struct stat *, int);
static int (*r_fstatat64)(int, const char *, struct stat64 *, int);
static int (*r_statx)(int, const char *, int, unsigned, struct statx *);
static int (*r_access)(const char *, int);
static char *(*r_realpath)(const char *, char *);
static char *(*r_getcwd)(char *, size_t);
static ssize_t (*r_readlink)(const char *, char *, size_t);
static int (*r_fsync)(int);
static int (*r_fdatasync)(int);
static ssize_t (*r_getrandom)(void *, size_t, unsigned);
static int (*r_clock_gettime)(clockid_t, struct timespec *);
static int (*r_posix_spawn)(pid_t *, const char *, const posix_spawn_file_actions_t *,
                            const posix_spawnattr_t *, char *const[], char *const[]);
static int (*r_posix_spawnp)(pid_t *, const char *, const posix_spawn_file_actions_t *,
                             const posix_spawnattr_t *, char *const[], char *const[]);
static pid_t (*r_waitpid)(pid_t, int *, int);
static int (*r_execvp)(const char *, char *const[]);
static pid_t (*r_fork)(void);

#define REAL(name) r_##name = dlsym(RTLD_NEXT, #name)

static void load_real(void) {
    REAL(open); REAL(open64); REAL(openat); REAL(openat64); REAL(creat);
    REAL(read); REAL(pread64); REAL(readv); REAL(write); REAL(writev); REAL(close);
    REAL(rename); REAL(renameat); REAL(renameat2); REAL(unlink); REAL(unlinkat);
    REAL(rmdir); REAL(mkdir); REAL(link); REAL(symlink); REAL(chmod);
    REAL(truncate); REAL(ftruncate); REAL(ftruncate64);
    REAL(stat); REAL(lstat); REAL(stat64); REAL(lstat64); REAL(fstatat); REAL(fstatat64);
    REAL(statx); REAL(access); REAL(realpath); REAL(readlink); REAL(fsync); REAL(fdatasync);
    REAL(getrandom); REAL(clock_gettime); REAL(posix_spawn); REAL(posix_spawnp);
    REAL(waitpid); REAL(execvp); REAL(fork); REAL(getcwd);
}

/* ---- helpers ---- */
/* hide a pointer from the optimiser: libc declares many path parameters nonnull, and GCC would
   drop our NULL checks (Rust's std probes statx(0, NULL, ...) on purpose) */
static inline const char *launder(const char *p) { __asm__ volatile("" : "+r"(p)); return p; }

static uint64_t splitmix64(void) {
    uint64_t z = (rng_state += 0x9e3779b97f4a7c15ull);
    z = (z ^ (z >> 30)) * 0xbf58476d1ce4e5b9ull;
    z = (z ^ (z >> 27)) * 0x94d049bb133111ebull;
    return z ^ (z >> 31);
}

static uint64_t fnv1a(const void *p, size_t n, uint64_t h) {
    const unsigned char *s = p;
    for (size_t i = 0; i < n; i++) { h ^= s[i]; h *= 0x100000001b3ull; }
    return h;
}

static void logf_(const char *fmt, ...) {
    if (logfd < 0) return;
    char buf[3 * PATH_MAX];
    va_list ap;
    va_start(ap, fmt);
    int n = vsnprintf(buf, sizeof buf, fmt, ap);
    va_end(ap);
    if (n < 0) return;
    if ((size_t)n >= sizeof buf) n = sizeof buf - 1;
    size_t off = 0;
    while (off < (size_t)n) {
        ssize_t w = syscall(SYS_write, logfd, buf + off, n - off);
        if (w <= 0) break;
        off += w;
    }
}

/* lexical normalisation of an absolute path (collapses . and ..) */
static void lexnorm(const char *in, char *out) {
    char tmp[PATH_MAX];
    strncpy(tmp, in, PATH_MAX - 1); tmp[PATH_MAX - 1] = 0;
    char *parts[512]; int np = 0;
    char *save = NULL;
    for (char *t = strtok_r(tmp, "/", &save); t; t = strtok_r(NULL, "/", &save)) {
        if (!strcmp(t, ".")) continue;
        if (!strcmp(t, "..")) { if (np > 0) np--; continue; }
        if (np < 512) parts[np++] = t;
    }
    char *o = out; *o = 0;
    if (np == 0) { strcpy(out, "/"); return; }
    for (int i = 0; i < np; i++) { *o++ = '/'; size_t l = strlen(parts[i]); memcpy(o, parts[i], l); o += l; }
    *o = 0;
}

/* make absolute (not collapsed) into abs; collapsed form into norm.
   returns 1 if under the world root */
static int resolve(int dirfd, const char *path, char *abs, char *norm) {
    path = launder(path);
    if (!path) { abs[0] = norm[0] = 0; return 0; }
    if (path[0] == '/') {
        snprintf(abs, PATH_MAX, "%s", path);
    } else if (dirfd != AT_FDCWD && dirfd >= 0 && dirfd < MAXFD && fdpath[dirfd]) {
        snprintf(abs, PATH_MAX, "%s/%s", fdpath[dirfd], path);
    } else {
        char cwd[PATH_MAX];
        if (syscall(SYS_getcwd, cwd, sizeof cwd) < 0) cwd[0] = 0;
        snprintf(abs, PATH_MAX, "%s/%s", cwd, path);
    }
    lexnorm(abs, norm);
    if (rootlen && !strncmp(norm, root, rootlen) && (norm[rootlen] == '/' || norm[rootlen] == 0)) return 1;
    return 0;
}

/* path as logged: relative to root, spelling preserved where possible */
static const char *rel(const char *abs) {
    if (rootlen && !strncmp(abs, root, rootlen)) {
        if (abs[rootlen] == '/') return abs + rootlen + 1;
        if (abs[rootlen] == 0) return ".";
    }
    return abs;
}

static int is_config_probe(const char *norm) {
    const char *b = strrchr(norm, '/');
    b = b ? b + 1 : norm;
    return !strcmp(b, "rustfmt.toml") || !strcmp(b, ".rustfmt.toml");
}

static void crash_now(void) {
    logf_("%lu crash\n", seq++);
    syscall(SYS_kill, syscall(SYS_getpid), SIGKILL);
    for (;;) pause();
}

static int opclass_match(const char *ruleclass, const char *op, int mutating) {
    if (!strcmp(ruleclass, "any")) return 1;
    if (!strcmp(ruleclass, op)) return 1;
    if (!strcmp(ruleclass, "openw")) return !strcmp(op, "open") && mutating;
    if (!strcmp(ruleclass, "mut")) return mutating;
    return 0;
}

static int path_match(const char *pat, const char *relpath) {
    if (!strcmp(pat, "*")) return 1;
    if (pat[0] == '%') {
        size_t lp = strlen(pat + 1), lr = strlen(relpath);
        return lr >= lp && !strcmp(relpath + lr - lp, pat + 1);
    }
    return !strcmp(pat, relpath);
}

/* find the rule that fires for this call, if any */
static struct rule *match_rule(const char *op, const char *relpath, int mutating) {
    struct rule *hit = NULL;
    for (int i = 0; i < nrules; i++) {
        struct rule *r = &rules[i];
        if (r->proc >= 0 && r->proc != proc_idx) continue;
        if (!opclass_match(r->opclass, op, mutating)) continue;
        if (!path_match(r->path, relpath)) continue;
        r->hits++;
        int fire;
        if (r->action == A_EINTR) fire = (r->nth == 0 || r->hits >= r->nth) && r->eintr_left > 0;
        else if (r->action == A_TORN) fire = r->fired > 0 || r->nth == 0 || r->hits == r->nth;
        else fire = r->nth == 0 || r->hits == r->nth;
        if (fire && !hit) hit = r;
    }
    return hit;
}

static void load_plan(const char *dir) {
    char p[PATH_MAX];
    snprintf(p, sizeof p, "%s/plan", dir);
    FILE *f = fopen(p, "r");
    if (!f) return;
    char line[2 * PATH_MAX];
    while (fgets(line, sizeof line, f) && nrules < MAXRULES) {
        if (line[0] == '#' || line[0] == '\n') continue;
        char procs[32], opc[32], path[PATH_MAX], act[32], a1[256] = "", a2[64] = "";
        long nth;
        int n = sscanf(line, "%31s %31s %ld %4095s %31s %255s %63s", procs, opc, &nth, path, act, a1, a2);
        if (n < 5) continue;
        struct rule *r = &rules[nrules];
        memset(r, 0, sizeof *r);
        r->proc = !strcmp(procs, "*") ? -1 : atoi(procs);
        snprintf(r->opclass, sizeof r->opclass, "%s", opc);
        r->nth = nth;
        snprintf(r->path, sizeof r->path, "%s", path);
        if (!strcmp(act, "errno")) { r->action = A_ERRNO; r->a1 = atol(a1); }
        else if (!strcmp(act, "short")) {
            r->action = A_SHORT;
            char *save = NULL;
            for (char *t = strtok_r(a1, ",", &save); t && r->nsizes < 16; t = strtok_r(NULL, ",", &save))
                r->sizes[r->nsizes++] = atol(t);
            if (r->nsizes == 0) { r->sizes[0] = 1; r->nsizes = 1; }
        }
        else if (!strcmp(act, "eintr")) { r->action = A_EINTR; r->a1 = atol(a1); r->eintr_left = r->a1; }
        else if (!strcmp(act, "torn")) { r->action = A_TORN; r->a1 = atol(a1); r->a2 = atol(a2); }
        else if (!strcmp(act, "crash_before")) r->action = A_CRASH_BEFORE;
        else if (!strcmp(act, "crash_after")) r->action = A_CRASH_AFTER;
        else if (!strcmp(act, "crash_mid")) { r->action = A_CRASH_MID; r->a1 = atol(a1); }
        else continue;
        nrules++;
    }
    fclose(f);
}

static int tool_exe(void) {
    char exe[PATH_MAX];
    ssize_t n = syscall(SYS_readlink, "/proc/self/exe", exe, sizeof exe - 1);
    if (n <= 0) return 0;
    exe[n] = 0;
    const char *b = strrchr(exe, '/');
    b = b ? b + 1 : exe;
    return !strcmp(b, "rustfmt") || !strcmp(b, "cargo-fmt") || !strcmp(b, "rustfmt-format-diff") ||
           !strcmp(b, "git-rustfmt") || !strcmp(b, "session-driver");
}

static void init(void) {
    if (inited) return;
    inited = 1;
    load_real();
    const char *dir = getenv("SIMFS_DIR");
    if (!dir || !*dir || !tool_exe()) return;
    in_hook = 1;
    const char *rt = getenv("SIMFS_ROOT");
    if (rt) { snprintf(root, sizeof root, "%s", rt); rootlen = strlen(root); }
    const char *sd = getenv("SIMFS_SEED");
    rng_state = sd ? strtoull(sd, NULL, 10) : 0;
    /* process index: order of start within the invocation */
    char p[PATH_MAX];
    snprintf(p, sizeof p, "%s/counter", dir);
    int cfd = syscall(SYS_open, p, O_RDWR | O_CREAT, 0644);
    if (cfd >= 0) {
        flock(cfd, LOCK_EX);
        char b[32] = {0};
        ssize_t n = syscall(SYS_read, cfd, b, sizeof b - 1);
        proc_idx = n > 0 ? atoi(b) : 0;
        int l = snprintf(b, sizeof b, "%d\n", proc_idx + 1);
        syscall(SYS_lseek, cfd, 0, SEEK_SET);
        syscall(SYS_write, cfd, b, l);
        flock(cfd, LOCK_UN);
        syscall(SYS_close, cfd);
    }
    snprintf(p, sizeof p, "%s/p%d.log", dir, proc_idx);
    logfd = syscall(SYS_open, p, O_WRONLY | O_CREAT | O_TRUNC | O_CLOEXEC, 0644);
    if (logfd >= 0 && logfd < 200) { /* move out of the way of the program's own fds */
        int nfd = syscall(SYS_fcntl, logfd, F_DUPFD_CLOEXEC, 900);
        if (nfd >= 0) { syscall(SYS_close, logfd); logfd = nfd; }
    }
    /* each process of an invocation gets its own hash-seed stream */
    rng_state ^= (uint64_t)proc_idx * 0xd1342543de82ef95ull;
    load_plan(dir);
    fdpath[0] = "@0"; fdpath[1] = "@1"; fdpath[2] = "@2";
    active = 1;
    in_hook = 0;
}

__attribute__((constructor)) static void ctor(void) { init(); }

__attribute__((destructor)) static void dtor(void) {
    if (active) logf_("# end ops=%lu clock=%lu rand=%lu\n", cnt_ops, cnt_clock, cnt_rand);
}

#define ENTER() do { if (!inited) init(); } while (0)
#define ON (active && !in_hook)

static int is_mut_flags(int flags) {
    return (flags & O_ACCMODE) != O_RDONLY || (flags & (O_CREAT | O_TRUNC));
}

static void set_fdpath(int fd, const char *abs) {
    if (fd < 0 || fd >= MAXFD) return;
    fdpath[fd] = strdup(abs);
}

/* generic pre-op fault handling for path ops. returns: 0 continue, -1 fail with errno set.
   *after set to 1 if crash_after requested. */
static int pre_fault(const char *op, const char *relp, int mut, int *after) {
    struct rule *r = match_rule(op, relp, mut);
    *after = 0;
    if (!r) return 0;
    switch (r->action) {
    case A_ERRNO:
        r->fired++;
        logf_("%lu fault errno=%ld on %s %s\n", seq, r->a1, op, relp);
        errno = (int)r->a1;
        return -1;
    case A_CRASH_BEFORE:
        logf_("%lu fault crash_before %s %s\n", seq, op, relp);
        crash_now();
        return -1;
    case A_CRASH_AFTER:
        *after = 1;
        return 0;
    default:
        return 0;
    }
}

/* ---- open family ---- */
static int do_open(int which, int dirfd, const char *path, int flags, mode_t mode) {
    char abs[PATH_MAX], norm[PATH_MAX];
    int under = 0, after = 0;
    if (ON) {
        under = resolve(dirfd, path, abs, norm);
        if (!under && is_config_probe(norm)) { errno = ENOENT; return -1; }
        if (under) {
            cnt_ops++;
            if (pre_fault("open", rel(norm), is_mut_flags(flags), &after) < 0) {
                logf_("%lu open %s flags=%#x -> -1 errno=%d\n", seq++, rel(abs), flags, errno);
                return -1;
            }
        }
    }
    int fd;
    switch (which) {
    case 0: fd = r_open(path, flags, mode); break;
    case 1: fd = r_open64(path, flags, mode); break;
    case 2: fd = r_openat(dirfd, path, flags, mode); break;
    default: fd = r_openat64(dirfd, path, flags, mode); break;
    }
    if (ON && under) {
        int e = errno;
        logf_("%lu open %s flags=%#x%s -> %d errno=%d\n", seq++, rel(abs), flags,
              is_mut_flags(flags) ? " MUT" : "", fd < 0 ? -1 : 3, fd < 0 ? e : 0);
        if (fd >= 0) set_fdpath(fd, norm);
        if (after) crash_now();
        errno = e;
    }
    return fd;
}

int open(const char *path, int flags, ...) {
    ENTER();
    mode_t mode = 0;
    if (flags & (O_CREAT | O_TMPFILE)) { va_list ap; va_start(ap, flags); mode = va_arg(ap, mode_t); va_end(ap); }
    return do_open(0, AT_FDCWD, path, flags, mode);
}
int open64(const char *path, int flags, ...) {
    ENTER();
    mode_t mode = 0;
    if (flags & (O_CREAT | O_TMPFILE)) { va_list ap; va_start(ap, flags); mode = va_arg(ap, mode_t); va_end(ap); }
    return do_open(1, AT_FDCWD, path, flags, mode);
}
int openat(int dirfd, const char *path, int flags, ...) {
    ENTER();
    mode_t mode = 0;
    if (flags & (O_CREAT | O_TMPFILE)) { va_list ap; va_start(ap, flags); mode = va_arg(ap, mode_t); va_end(ap); }
    return do_open(2, dirfd, path, flags, mode);
}
int openat64(int dirfd, const char *path, int flags, ...) {
    ENTER();
    mode_t mode = 0;
    if (flags & (O_CREAT | O_TMPFILE)) { va_list ap; va_start(ap, flags); mode = va_arg(ap, mode_t); va_end(ap); }
    return do_open(3, dirfd, path, flags, mode);
}
int creat(const char *path, mode_t mode) {
    ENTER();
    return do_open(0, AT_FDCWD, path, O_CREAT | O_WRONLY | O_TRUNC, mode);
}

int close(int fd) {
    ENTER();
    if (ON && fd == logfd) { errno = EBADF; return -1; }
    int r = r_close(fd);
    if (ON && fd >= 3 && fd < MAXFD && fdpath[fd]) {
        logf_("%lu close %s -> %d\n", seq++, rel(fdpath[fd]), r);
        free(fdpath[fd]);
        fdpath[fd] = NULL;
    }
    return r;
}

/* ---- read family ---- */
static const char *fdname(int fd) {
    if (fd >= 0 && fd < MAXFD && fdpath[fd]) return fd < 3 ? fdpath[fd] : rel(fdpath[fd]);
    return NULL;
}

ssize_t read(int fd, void *buf, size_t count) {
    ENTER();
    const char *nm = ON ? fdname(fd) : NULL;
    if (!nm) return r_read(fd, buf, count);
    cnt_ops++;
    struct rule *r = match_rule("read", nm, 0);
    size_t want = count;
    int after = 0;
    if (r) {
        switch (r->action) {
        case A_ERRNO:
            r->fired++;
            logf_("%lu read %s n=%zu -> -1 errno=%ld FAULT\n", seq++, nm, count, r->a1);
            errno = (int)r->a1; return -1;
        case A_EINTR:
            if (r->eintr_left > 0) {
                r->eintr_left--; r->fired++;
                logf_("%lu read %s n=%zu -> -1 errno=%d FAULT\n", seq++, nm, count, EINTR);
                errno = EINTR; return -1;
            }
            break;
        case A_SHORT: {
            long s = r->sizes[r->fired % r->nsizes];
            if (s > 0 && (size_t)s < want) { want = s; }
            r->fired++;
            break; }
        case A_CRASH_BEFORE: logf_("%lu fault crash_before read %s\n", seq, nm); crash_now(); break;
        case A_CRASH_AFTER: after = 1; break;
        default: break;
        }
    }
    ssize_t n = r_read(fd, buf, want);
    int e = errno;
    logf_("%lu read %s n=%zu%s -> %zd\n", seq++, nm, count, want != count ? " SHORT" : "", n);
    if (after) crash_now();
    errno = e;
    return n;
}

ssize_t pread64(int fd, void *buf, size_t count, off_t off) {
    ENTER();
    const char *nm = ON ? fdname(fd) : NULL;
    ssize_t n = r_pread64(fd, buf, count, off);
    if (nm) { int e = errno; cnt_ops++; logf_("%lu pread %s n=%zu off=%ld -> %zd\n", seq++, nm, count, (long)off, n); errno = e; }
    return n;
}

ssize_t readv(int fd, const struct iovec *iov, int cnt) {
    ENTER();
    const char *nm = ON ? fdname(fd) : NULL;
    ssize_t n = r_readv(fd, iov, cnt);
    if (nm) { int e = errno; cnt_ops++; logf_("%lu readv %s cnt=%d -> %zd\n", seq++, nm, cnt, n); errno = e; }
    return n;
}

/* ---- write family ---- */
static ssize_t do_write(int fd, const void *buf, size_t count, const char *nm) {
    cnt_ops++;
    struct rule *r = match_rule("write", nm, fd >= 3);
    size_t want = count;
    int after = 0;
    if (r) {
        switch (r->action) {
        case A_ERRNO:
            r->fired++;
            logf_("%lu write %s n=%zu -> -1 errno=%ld FAULT\n", seq++, nm, count, r->a1);
            /* a write to a pipe nobody reads raises SIGPIPE as well as failing with EPIPE: a process that has not
               chosen to ignore the signal dies here, as it would under the kernel */
            if (r->a1 == EPIPE) raise(SIGPIPE);
            errno = (int)r->a1; return -1;
        case A_EINTR:
            if (r->eintr_left > 0) {
                r->eintr_left--; r->fired++;
                logf_("%lu write %s n=%zu -> -1 errno=%d FAULT\n", seq++, nm, count, EINTR);
                errno = EINTR; return -1;
            }
            break;
        case A_SHORT: {
            long s = r->sizes[r->fired % r->nsizes];
            if (s > 0 && (size_t)s < want) want = s;
            r->fired++;
            break; }
        case A_TORN: {
            /* first matching call writes a1 bytes; the retry fails with a2 */
            if (r->fired == 0) {
                r->fired++;
                if ((size_t)r->a1 < want) want = r->a1;
                if (want == 0) {
                    logf_("%lu write %s n=%zu -> -1 errno=%ld FAULT torn0\n", seq++, nm, count, r->a2);
                    errno = (int)r->a2; return -1;
                }
            } else {
                r->fired++;
                logf_("%lu write %s n=%zu -> -1 errno=%ld FAULT torn\n", seq++, nm, count, r->a2);
                errno = (int)r->a2; return -1;
            }
            break; }
        case A_CRASH_BEFORE: logf_("%lu fault crash_before write %s\n", seq, nm); crash_now(); break;
        case A_CRASH_AFTER: after = 1; break;
        case A_CRASH_MID: {
            size_t k = (size_t)r->a1 < count ? (size_t)r->a1 : count;
            ssize_t n = k ? r_write(fd, buf, k) : 0;
            logf_("%lu write %s n=%zu -> %zd FAULT crash_mid\n", seq++, nm, count, n);
            crash_now();
            break; }
        default: break;
        }
    }
    ssize_t n = r_write(fd, buf, want);
    int e = errno;
    logf_("%lu write %s n=%zu%s -> %zd h=%016llx\n", seq++, nm, count, want != count ? " SHORT" : "", n,
          n > 0 ? (unsigned long long)fnv1a(buf, n, 0xcbf29ce484222325ull) : 0ull);
    if (after) crash_now();
    errno = e;
    return n;
}

ssize_t write(int fd, const void *buf, size_t count) {
    ENTER();
    const char *nm = ON ? fdname(fd) : NULL;
    if (!nm) return r_write(fd, buf, count);
    return do_write(fd, buf, count, nm);
}

ssize_t writev(int fd, const struct iovec *iov, int cnt) {
    ENTER();
    const char *nm = ON ? fdname(fd) : NULL;
    if (!nm) return r_writev(fd, iov, cnt);
    /* legal behaviour of writev: write only (part of) the first non-empty buffer */
    for (int i = 0; i < cnt; i++)
        if (iov[i].iov_len) return do_write(fd, iov[i].iov_base, iov[i].iov_len, nm);
    return 0;
}

/* ---- two-path and one-path mutators ---- */
static int do_rename(int which, int od, const char *o, int nd, const char *n, unsigned fl) {
    char oa[PATH_MAX], on_[PATH_MAX], na[PATH_MAX], nn[PATH_MAX];
    int under = 0, after = 0;
    if (ON) {
        int u1 = resolve(od, o, oa, on_), u2 = resolve(nd, n, na, nn);
        under = u1 || u2;
        if (under) {
            cnt_ops++;
            char both[2 * PATH_MAX + 4];
            snprintf(both, sizeof both, "%s", rel(on_));
            if (pre_fault("rename", both, 1, &after) < 0) {
                logf_("%lu rename %s -> %s -> -1 errno=%d\n", seq++, rel(oa), rel(na), errno);
                return -1;
            }
        }
    }
    int r;
    switch (which) {
    case 0: r = r_rename(o, n); break;
    case 1: r = r_renameat(od, o, nd, n); break;
    default: r = r_renameat2(od, o, nd, n, fl); break;
    }
    if (ON && under) {
        int e = errno;
        logf_("%lu rename %s -> %s MUT -> %d errno=%d\n", seq++, rel(oa), rel(na), r, r < 0 ? e : 0);
        if (after) crash_now();
        errno = e;
    }
    return r;
}
int rename(const char *o, const char *n) { ENTER(); return do_rename(0, AT_FDCWD, o, AT_FDCWD, n, 0); }
int renameat(int od, const char *o, int nd, const char *n) { ENTER(); return do_rename(1, od, o, nd, n, 0); }
int renameat2(int od, const char *o, int nd, const char *n, unsigned fl) { ENTER(); return do_rename(2, od, o, nd, n, fl); }

#define ONEPATH_MUT(opname, call_expr, dirfd_expr, patharg)                                         \
    char abs[PATH_MAX], norm[PATH_MAX];                                                             \
    int under = 0, after = 0;                                                                       \
    if (ON) {                                                                                       \
        under = resolve(dirfd_expr, patharg, abs, norm);                                            \
        if (under) {                                                                                \
            cnt_ops++;                                                                              \
            if (pre_fault(opname, rel(norm), 1, &after) < 0) {                                       \
                logf_("%lu %s %s -> -1 errno=%d\n", seq++, opname, rel(abs), errno);                \
                return -1;                                                                          \
            }                                                                                       \
        }                                                                                           \
    }                                                                                               \
    int r = call_expr;                                                                              \
    if (ON && under) {                                                                              \
        int e = errno;                                                                              \
        logf_("%lu %s %s MUT -> %d errno=%d\n", seq++, opname, rel(abs), r, r < 0 ? e : 0);         \
        if (after) crash_now();                                                                     \
        errno = e;                                                                                  \
    }                                                                                               \
    return r;

int unlink(const char *p) { ENTER(); ONEPATH_MUT("unlink", r_unlink(p), AT_FDCWD, p) }
int unlinkat(int d, const char *p, int f) { ENTER(); ONEPATH_MUT("unlink", r_unlinkat(d, p, f), d, p) }
int rmdir(const char *p) { ENTER(); ONEPATH_MUT("unlink", r_rmdir(p), AT_FDCWD, p) }
int mkdir(const char *p, mode_t m) { ENTER(); ONEPATH_MUT("mkdir", r_mkdir(p, m), AT_FDCWD, p) }
int chmod(const char *p, mode_t m) { ENTER(); ONEPATH_MUT("chmod", r_chmod(p, m), AT_FDCWD, p) }
int truncate(const char *p, off_t l) { ENTER(); ONEPATH_MUT("truncate", r_truncate(p, l), AT_FDCWD, p) }
int link(const char *o, const char *n) { ENTER(); ONEPATH_MUT("link", r_link(o, n), AT_FDCWD, n) }
int symlink(const char *o, const char *n) { ENTER(); ONEPATH_MUT("symlink", r_symlink(o, n), AT_FDCWD, n) }

int ftruncate(int fd, off_t l) {
    ENTER();
    int r = r_ftruncate(fd, l);
    const char *nm = ON ? fdname(fd) : NULL;
    if (nm) { int e = errno; logf_("%lu ftruncate %s len=%ld MUT -> %d\n", seq++, nm, (long)l, r); errno = e; }
    return r;
}
int ftruncate64(int fd, off_t l) {
    ENTER();
    int r = r_ftruncate64(fd, l);
    const char *nm = ON ? fdname(fd) : NULL;
    if (nm) { int e = errno; logf_("%lu ftruncate %s len=%ld MUT -> %d\n", seq++, nm, (long)l, r); errno = e; }
    return r;
}

int fsync(int fd) {
    ENTER();
    const char *nm = ON ? fdname(fd) : NULL;
    if (nm) {
        int after = 0;
        cnt_ops++;
        if (pre_fault("fsync", nm, 0, &after) < 0) { logf_("%lu fsync %s -> -1 errno=%d\n", seq++, nm, errno); return -1; }
        int r = r_fsync(fd); int e = errno;
        logf_("%lu fsync %s -> %d\n", seq++, nm, r);
        if (after) crash_now();
        errno = e; return r;
    }
    return r_fsync(fd);
}
int fdatasync(int fd) {
    ENTER();
    const char *nm = ON ? fdname(fd) : NULL;
    int r = r_fdatasync(fd);
    if (nm) { int e = errno; logf_("%lu fsync %s -> %d\n", seq++, nm, r); errno = e; }
    return r;
}

/* ---- stat family ---- */
#define STAT_PRE(dirfd_expr, patharg)                                                               \
    char abs[PATH_MAX], norm[PATH_MAX];                                                             \
    int under = 0, after = 0;                                                                       \
    if (ON && launder(patharg) && launder(patharg)[0]) {                                            \
        under = resolve(dirfd_expr, patharg, abs, norm);                                            \
        if (!under && is_config_probe(norm)) { errno = ENOENT; return -1; }                         \
        if (under) {                                                                                \
            cnt_ops++;                                                                              \
            if (pre_fault("stat", rel(norm), 0, &after) < 0) {                                       \
                logf_("%lu stat %s -> -1 errno=%d\n", seq++, rel(abs), errno);                      \
                return -1;                                                                          \
            }                                                                                       \
        }                                                                                           \
    }
#define STAT_POST(r)                                                                                \
    if (ON && under) {                                                                              \
        int e = errno;                                                                              \
        logf_("%lu stat %s -> %d errno=%d\n", seq++, rel(abs), r, r < 0 ? e : 0);                   \
        if (after) crash_now();                                                                     \
        errno = e;                                                                                  \
    }                                                                                               \
    return r;

int stat(const char *p, struct stat *s) { ENTER(); STAT_PRE(AT_FDCWD, p) int r = r_stat(p, s); STAT_POST(r) }
int lstat(const char *p, struct stat *s) { ENTER(); STAT_PRE(AT_FDCWD, p) int r = r_lstat(p, s); STAT_POST(r) }
int stat64(const char *p, struct stat64 *s) { ENTER(); STAT_PRE(AT_FDCWD, p) int r = r_stat64(p, s); STAT_POST(r) }
int lstat64(const char *p, struct stat64 *s) { ENTER(); STAT_PRE(AT_FDCWD, p) int r = r_lstat64(p, s); STAT_POST(r) }
int fstatat(int d, const char *p, struct stat *s, int f) { ENTER(); STAT_PRE(d, p) int r = r_fstatat(d, p, s, f); STAT_POST(r) }
int fstatat64(int d, const char *p, struct stat64 *s, int f) { ENTER(); STAT_PRE(d, p) int r = r_fstatat64(d, p, s, f); STAT_POST(r) }
int statx(int d, const char *p, int f, unsigned m, struct statx *s) {
    ENTER();
    if (!r_statx) { errno = ENOSYS; return -1; }
    STAT_PRE(d, p) int r = r_statx(d, p, f, m, s); STAT_POST(r)
}
int access(const char *p, int m) { ENTER(); STAT_PRE(AT_FDCWD, p) int r = r_access(p, m); STAT_POST(r) }

char *realpath(const char *p, char *out) {
    ENTER();
    char abs[PATH_MAX], norm[PATH_MAX];
    int under = 0;
    if (ON && launder(p)) {
        under = resolve(AT_FDCWD, p, abs, norm);
        if (under) {
            cnt_ops++;
            struct rule *r = match_rule("realpath", rel(norm), 0);
            if (r && r->action == A_ERRNO) {
                r->fired++;
                logf_("%lu realpath %s -> NULL errno=%ld FAULT\n", seq++, rel(abs), r->a1);
                errno = (int)r->a1; return NULL;
            }
        }
    }
    char *res = r_realpath(p, out);
    if (ON && under) { int e = errno; logf_("%lu realpath %s -> %s\n", seq++, rel(abs), res ? rel(res) : "NULL"); errno = e; }
    return res;
}

/* the working directory cannot be named (it was removed, an ancestor is unreadable, the name is too long) */
char *getcwd(char *buf, size_t size) {
    ENTER();
    if (ON) {
        struct rule *r = match_rule("getcwd", "*", 0);
        if (r && r->action == A_ERRNO) {
            r->fired++; cnt_ops++;
            logf_("%lu getcwd -> NULL errno=%ld FAULT\n", seq++, r->a1);
            errno = (int)r->a1; return NULL;
        }
    }
    return r_getcwd(buf, size);
}

ssize_t readlink(const char *p, char *b, size_t n) {
    ENTER();
    return r_readlink(p, b, n);
}

/* ---- randomness and time ---- */
ssize_t getrandom(void *buf, size_t len, unsigned flags) {
    ENTER();
    if (!ON) {
        if (r_getrandom) return r_getrandom(buf, len, flags);
        return syscall(SYS_getrandom, buf, len, flags);
    }
    unsigned char *b = buf;
    for (size_t i = 0; i < len; i += 8) {
        uint64_t v = splitmix64();
        size_t k = len - i < 8 ? len - i : 8;
        memcpy(b + i, &v, k);
    }
    cnt_rand++;
    logf_("%lu getrandom n=%zu\n", seq++, len);
    return (ssize_t)len;
}

int clock_gettime(clockid_t id, struct timespec *ts) {
    ENTER();
    if (!ON) return r_clock_gettime(id, ts);
    vclock_ns += 1000000ull;
    cnt_clock++;
    if (ts) { ts->tv_sec = vclock_ns / 1000000000ull; ts->tv_nsec = vclock_ns % 1000000000ull; }
    return 0;
}

/* ---- processes ---- */
static void log_argv(const char *tag, const char *file, char *const argv[]) {
    char buf[2 * PATH_MAX];
    size_t o = 0;
    for (int i = 0; argv && argv[i] && o < sizeof buf - 2; i++) {
        for (const char *c = argv[i]; *c && o < sizeof buf - 8; c++) {
            if (*c == ' ' || *c == '\n' || *c == '\\' || *c == '\t') o += snprintf(buf + o, 8, "\\x%02x", (unsigned char)*c);
            else buf[o++] = *c;
        }
        buf[o++] = ' ';
    }
    buf[o] = 0;
    logf_("%lu %s %s argv=%s", seq, tag, file, buf);
}

static int do_spawn(int which, pid_t *pid, const char *file, const posix_spawn_file_actions_t *fa,
                    const posix_spawnattr_t *at, char *const argv[], char *const envp[]) {
    if (ON) {
        cnt_ops++;
        const char *b = strrchr(file, '/');
        b = b ? b + 1 : file;
        struct rule *r = match_rule("spawn", b, 0);
        if (r && r->action == A_ERRNO) {
            r->fired++;
            log_argv("spawn", file, argv);
            logf_("-> errno=%ld FAULT\n", r->a1);
            seq++;
            return (int)r->a1; /* posix_spawn returns the error number */
        }
    }
    int rc = which ? r_posix_spawnp(pid, file, fa, at, argv, envp) : r_posix_spawn(pid, file, fa, at, argv, envp);
    if (ON) { log_argv("spawn", file, argv); logf_("-> %d\n", rc); seq++; }
    return rc;
}
int posix_spawn(pid_t *pid, const char *file, const posix_spawn_file_actions_t *fa, const posix_spawnattr_t *at,
                char *const argv[], char *const envp[]) { ENTER(); return do_spawn(0, pid, file, fa, at, argv, envp); }
int posix_spawnp(pid_t *pid, const char *file, const posix_spawn_file_actions_t *fa, const posix_spawnattr_t *at,
                 char *const argv[], char *const envp[]) { ENTER(); return do_spawn(1, pid, file, fa, at, argv, envp); }

pid_t waitpid(pid_t pid, int *status, int options) {
    ENTER();
    int st = 0;
    pid_t r = r_waitpid(pid, &st, options);
    if (ON && r > 0) {
        /* fault: the child is gone before it can be waited for (SIGCHLD ignored by the parent's parent: the
           kernel reaps it and waitpid answers ECHILD).  The real wait above has reaped it; its status is lost. */
        struct rule *fr = match_rule("wait", "*", 0);
        if (fr && fr->action == A_ERRNO) {
            fr->fired++;
            logf_("%lu wait -> -1 errno=%ld FAULT\n", seq++, fr->a1);
            errno = (int)fr->a1;
            return -1;
        }
    }
    if (status) *status = st;
    if (ON) {
        int e = errno;
        if (r > 0) {
            if (WIFEXITED(st)) logf_("%lu wait -> exit=%d\n", seq++, WEXITSTATUS(st));
            else if (WIFSIGNALED(st)) logf_("%lu wait -> signal=%d\n", seq++, WTERMSIG(st));
            else logf_("%lu wait -> status=%#x\n", seq++, st);
        } else logf_("%lu wait -> %d errno=%d\n", seq++, (int)r, e);
        errno = e;
    }
    return r;
}

int execvp(const char *file, char *const argv[]) {
    ENTER();
    if (ON) { log_argv("exec", file, argv); logf_("\n"); seq++; }
    return r_execvp(file, argv);
}
