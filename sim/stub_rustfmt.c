/* stub-rustfmt: recording stand-in for $RUSTFMT.  Appends one JSON record per
 * invocation (index, cwd, argv, selected env) to $SIMFS_DIR/stub-calls.jsonl,
 * then behaves as $SIMFS_DIR/stub-plan scripts for its index:
 *   <idx|*> exit N | signal N
 * Deterministic: no clock, no randomness, index = order of invocation. */
#define _GNU_SOURCE
#include <fcntl.h>
#include <limits.h>
#include <signal.h>
#include <stdio.h>
#include <stdlib.h>
#include <string.h>
#include <sys/file.h>
#include <unistd.h>

static void jstr(FILE *f, const char *s) {
    fputc('"', f);
    for (; *s; s++) {
        unsigned char c = *s;
        if (c == '"' || c == '\\') fprintf(f, "\\%c", c);
        else if (c < 0x20) fprintf(f, "\\u%04x", c);
        else fputc(c, f);
    }
    fputc('"', f);
}

int main(int argc, char **argv) {
    const char *dir = getenv("SIMFS_DIR");
    if (!dir) { fprintf(stderr, "stub-rustfmt: SIMFS_DIR unset\n"); return 99; }
    char p[PATH_MAX];
    snprintf(p, sizeof p, "%s/stub-calls.jsonl", dir);
    int fd = open(p, O_RDWR | O_CREAT | O_APPEND, 0644);
    if (fd < 0) return 98;
    flock(fd, LOCK_EX);
    /* index = number of lines already there */
    int idx = 0;
    {
        FILE *r = fopen(p, "r");
        int c;
        if (r) { while ((c = fgetc(r)) != EOF) if (c == '\n') idx++; fclose(r); }
    }
    FILE *f = fdopen(fd, "a");
    char cwd[PATH_MAX];
    if (!getcwd(cwd, sizeof cwd)) cwd[0] = 0;
    fprintf(f, "{\"idx\": %d, \"cwd\": ", idx);
    jstr(f, cwd);
    fprintf(f, ", \"argv\": [");
    for (int i = 1; i < argc; i++) { if (i > 1) fputc(',', f); jstr(f, argv[i]); }
    fprintf(f, "], \"argv0\": ");
    jstr(f, argv[0]);
    fprintf(f, "}\n");
    fflush(f);
    flock(fd, LOCK_UN);
    fclose(f);

    snprintf(p, sizeof p, "%s/stub-plan", dir);
    FILE *pl = fopen(p, "r");
    if (pl) {
        char who[32], act[32];
        int val;
        while (fscanf(pl, "%31s %31s %d", who, act, &val) == 3) {
            if (strcmp(who, "*") && atoi(who) != idx) continue;
            if (!strcmp(act, "exit")) return val;
            if (!strcmp(act, "signal")) { signal(val, SIG_DFL); kill(getpid(), val); pause(); }
        }
        fclose(pl);
    }
    return 0;
}
