//! session-driver: replays a scripted sequence of `Session::format` calls in ONE process through
//! rustfmt's public library API (the "API session" of properties C14 / C15), under the same
//! interposer as the command-line tools.
//!
//! usage: session-driver SCRIPT.json
//! script: {"emit": "stdout"|"files"|"check"|"json"|"checkstyle",
//!          "steps": [{"file": PATH, "discover": bool, "config_path": PATH|null,
//!                     "overrides": [[key, value], ...], "setters": [[key, value], ...]}]}
//! For every step the configuration is loaded the way `load_config` does it for that file
//! (discovery from the file's directory, or an explicit path, or defaults), the overrides are applied
//! through `Config::override_value` in the given order, and the file is formatted inside
//! `Session::override_config`.  Prints one JSON document: per step the bytes the session wrote and
//! the report, plus the session's final flags.
#![feature(rustc_private)]
extern crate rustc_driver;

use std::cell::RefCell;
use std::io::{self, Write};
use std::path::{Path, PathBuf};
use std::rc::Rc;

use rustfmt_nightly::{
    load_config, CliOptions, Config, Edition, EmitMode, FormatReportFormatterBuilder, Input, Session,
    StyleEdition, Version,
};

#[derive(Clone, Default)]
struct Opts {
    overrides: Vec<(String, String)>,
    config_path: Option<PathBuf>,
    emit: Option<EmitMode>,
}

impl CliOptions for Opts {
    fn apply_to(self, config: &mut Config) {
        if let Some(emit) = self.emit {
            config.set().emit_mode(emit);
        }
        for (k, v) in self.overrides {
            config.override_value(&k, &v);
        }
    }
    fn config_path(&self) -> Option<&Path> {
        self.config_path.as_deref()
    }
    fn edition(&self) -> Option<Edition> {
        self.overrides.iter().rev().find(|(k, _)| k == "edition").and_then(|(_, v)| v.parse().ok())
    }
    fn style_edition(&self) -> Option<StyleEdition> {
        self.overrides.iter().rev().find(|(k, _)| k == "style_edition").and_then(|(_, v)| v.parse().ok())
    }
    fn version(&self) -> Option<Version> {
        self.overrides.iter().rev().find(|(k, _)| k == "version").and_then(|(_, v)| v.parse().ok())
    }
}

#[derive(Clone)]
struct Shared(Rc<RefCell<Vec<u8>>>);

impl Write for Shared {
    fn write(&mut self, buf: &[u8]) -> io::Result<usize> {
        self.0.borrow_mut().extend_from_slice(buf);
        Ok(buf.len())
    }
    fn flush(&mut self) -> io::Result<()> {
        Ok(())
    }
}

/// The typed setter API (`config.set().option(value)`) for the options the checks use it with.
/// Returns false for an option this driver has no setter call for.
fn apply_setter(config: &mut Config, k: &str, v: &str) -> bool {
    macro_rules! num { ($name:ident) => { config.set().$name(v.parse().expect("number")) }; }
    macro_rules! boolean { ($name:ident) => { config.set().$name(v == "true") }; }
    match k {
        "max_width" => num!(max_width),
        "tab_spaces" => num!(tab_spaces),
        "fn_call_width" => num!(fn_call_width),
        "attr_fn_like_width" => num!(attr_fn_like_width),
        "struct_lit_width" => num!(struct_lit_width),
        "struct_variant_width" => num!(struct_variant_width),
        "array_width" => num!(array_width),
        "chain_width" => num!(chain_width),
        "single_line_if_else_max_width" => num!(single_line_if_else_max_width),
        "single_line_let_else_max_width" => num!(single_line_let_else_max_width),
        "hard_tabs" => boolean!(hard_tabs),
        "reorder_imports" => boolean!(reorder_imports),
        "merge_imports" => boolean!(merge_imports),
        "hide_parse_errors" => boolean!(hide_parse_errors),
        "show_parse_errors" => boolean!(show_parse_errors),
        _ => return false,
    }
    true
}

fn main() {
    let path = std::env::args().nth(1).expect("usage: session-driver SCRIPT.json");
    let script: serde_json::Value =
        serde_json::from_str(&std::fs::read_to_string(path).expect("read script")).expect("parse script");
    let emit = match script["emit"].as_str().unwrap_or("stdout") {
        "files" => EmitMode::Files,
        "check" => EmitMode::Diff,
        "json" => EmitMode::Json,
        "checkstyle" => EmitMode::Checkstyle,
        _ => EmitMode::Stdout,
    };
    let buf = Rc::new(RefCell::new(Vec::new()));
    let mut out = Shared(buf.clone());
    let base = Opts { emit: Some(emit), ..Default::default() };
    let (config, _) = load_config(None, Some(base)).expect("base config");
    let mut results = Vec::new();
    let flags;
    {
        let mut session = Session::new(config, Some(&mut out));
        for step in script["steps"].as_array().expect("steps") {
            let file = PathBuf::from(step["file"].as_str().expect("file"));
            let overrides = step["overrides"]
                .as_array()
                .map(|a| {
                    a.iter()
                        .map(|p| (p[0].as_str().unwrap().to_owned(), p[1].as_str().unwrap().to_owned()))
                        .collect()
                })
                .unwrap_or_default();
            let opts = Opts {
                overrides,
                config_path: step["config_path"].as_str().map(PathBuf::from),
                emit: Some(emit),
            };
            let dir = if step["discover"].as_bool().unwrap_or(true) { file.parent() } else { None };
            let before = buf.borrow().len();
            let mut report_text = String::new();
            let mut error = None;
            match load_config(dir, Some(opts)) {
                Ok((mut local, _)) => {
                    if let Some(setters) = step["setters"].as_array() {
                        for p in setters {
                            if !apply_setter(&mut local, p[0].as_str().unwrap(), p[1].as_str().unwrap()) {
                                error = Some(format!("no setter for {}", p[0]));
                            }
                        }
                    }
                    session.override_config(local, |sess| match sess.format(Input::File(file.clone())) {
                        Ok(report) => {
                            if report.has_warnings() {
                                report_text = FormatReportFormatterBuilder::new(&report).build().to_string();
                            }
                        }
                        Err(e) => error = Some(e.to_string()),
                    });
                }
                Err(e) => error = Some(format!("config: {e}")),
            }
            let after = buf.borrow().len();
            let text = String::from_utf8_lossy(&buf.borrow()[before..after]).into_owned();
            results.push(serde_json::json!({"file": step["file"], "text": text, "report": report_text, "error": error}));
        }
        flags = serde_json::json!({
            "operational": session.has_operational_errors(),
            "parsing": session.has_parsing_errors(),
            "diff": session.has_diff(),
            "check": session.has_check_errors(),
        });
    }
    let all = String::from_utf8_lossy(&buf.borrow()).into_owned();
    let doc = serde_json::json!({"steps": results, "flags": flags, "all": all});
    println!("{doc}");
}
