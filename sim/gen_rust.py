"""Seeded generators of Rust source text: deliberately unformatted but valid items,
plus access to the fixture corpus shipped in /repo/tests."""
import os

from . import core

IDENTS = ["alpha", "beta", "gamma", "delta", "eps", "zeta", "eta", "theta", "iota", "kappa", "lam", "mu", "nu", "xi"]
TYPES = ["u8", "i32", "u64", "usize", "String", "bool", "Vec<u8>", "Option<i32>", "&'static str", "(u8, u16)"]


def ident(rng):
    return rng.choice(IDENTS) + str(rng.below(100))


def expr(rng, depth=0):
    k = rng.below(9 if depth < 3 else 4)
    if k == 0:
        return str(rng.below(1000))
    if k == 1:
        return ident(rng)
    if k == 2:
        return '"%s"' % rng.choice(["hi", "a b", "x\\n", "long string literal with words", "é", ""])
    if k == 3:
        return "%s(%s)" % (ident(rng), ",".join(expr(rng, depth + 1) for _ in range(rng.below(4))))
    if k == 4:
        return "(%s) %s (%s)" % (expr(rng, depth + 1), rng.choice(["+", "-", "*", "&&", "==", "<"]), expr(rng, depth + 1))
    if k == 5:
        return "(if (%s) {%s}else{%s})" % (expr(rng, depth + 1), expr(rng, depth + 1), expr(rng, depth + 1))
    if k == 6:
        return "vec![%s]" % ",".join(expr(rng, depth + 1) for _ in range(rng.below(5)))
    if k == 7:
        return "(match %s {%s=>%s,_=>%s})" % (ident(rng), rng.below(9), expr(rng, depth + 1), expr(rng, depth + 1))
    return "(|%s|%s)" % (ident(rng), expr(rng, depth + 1))


def stmt(rng):
    k = rng.below(6)
    if k == 0:
        return "let %s=%s;" % (ident(rng), expr(rng))
    if k == 1:
        return "let  mut %s:%s = %s ;" % (ident(rng), rng.choice(TYPES), expr(rng))
    if k == 2:
        return 'println!("{}",%s);' % expr(rng)
    if k == 3:
        return "let _v=%s;" % expr(rng)
    if k == 4:
        return "// %s\nlet _w = %s;" % (rng.choice(["note", "TODO: later", "a comment"]), expr(rng))
    return "for %s in 0..%d{let _z=%s;}" % (ident(rng), rng.below(20), expr(rng))


def item(rng):
    k = rng.below(9)
    if k <= 2:
        params = ",".join("%s:%s" % (ident(rng), rng.choice(TYPES)) for _ in range(rng.below(4)))
        body = "".join(stmt(rng) for _ in range(rng.below(4)))
        vis = rng.choice(["", "pub ", "pub(crate) "])
        return "%sfn  %s( %s ){%s}\n" % (vis, ident(rng), params, body)
    if k == 3:
        fields = ",".join("%s:%s" % (ident(rng), rng.choice(TYPES)) for _ in range(1 + rng.below(4)))
        return "struct %s{%s}\n" % (ident(rng).capitalize(), fields)
    if k == 4:
        vs = ",".join(ident(rng).capitalize() for _ in range(1 + rng.below(4)))
        return "#[derive(Debug,Clone)]\nenum %s{%s}\n" % (ident(rng).capitalize(), vs)
    if k == 5:
        return "use std::{%s};\n" % ",".join(rng.sample(["fmt", "io", "mem", "env", "fs", "cmp::Ordering"], 1 + rng.below(3)))
    if k == 6:
        return "const %s:%s=%s;\n" % (ident(rng).upper(), "u32", rng.below(100))
    if k == 7:
        n = ident(rng).capitalize()
        return "impl %s{fn %s(&self)->u8{%s 1}}\n" % (n, ident(rng), "".join(stmt(rng) for _ in range(rng.below(2))))
    return "/// doc for item\n#[inline]\nfn %s()->%s{%s}\n" % (ident(rng), "u32", rng.below(10))


def unformatted(rng, nitems=None):
    """valid, deliberately unformatted source (never equal to its formatted text)"""
    n = nitems if nitems is not None else 1 + rng.below(4)
    parts = [item(rng) for _ in range(n)]
    # guarantee: a function with spacing that rustfmt always changes
    parts.insert(rng.below(len(parts) + 1), "fn  %s( ){ }\n" % ident(rng))
    if rng.chance(35):
        # multi-byte characters (2, 3 and 4 bytes) at a random place: chunked readers must not split them
        parts.insert(rng.below(len(parts) + 1), "// caf\u00e9 \u3042\u3044 \U0001f980 na\u00efve \u2014 \u00fc\n" * rng.range(1, 3))
    return "".join(parts)


def tiny_unformatted(tag="m"):
    return "fn  %s( ){ }\n" % tag


# syntax damage used as "stored bytes corrupted" fault
def corrupt(rng, text, kind=None):
    kind = kind or rng.choice(["unclosed", "stray", "lexer", "truncate"])
    if kind == "unclosed":
        return text + "fn broken( {\n", kind
    if kind == "stray":
        return text + "fn x() { let = ; }\n", kind
    if kind == "lexer":
        return text + 'fn y() { let s = "unterminated; }\n', kind
    cut = max(1, len(text) // 2)
    t = text[:cut]
    if t.count("{") == t.count("}"):
        t += "fn t( {"
    return t, "truncate"


_corpus = None


def corpus():
    """sorted list of (relname, abs path) of real fixture sources"""
    global _corpus
    if _corpus is None:
        out = []
        for sub in ("tests/source", "tests/target"):
            top = os.path.join(core.REPO, sub)
            for dp, dns, fns in os.walk(top):
                dns.sort()
                for fn in sorted(fns):
                    if fn.endswith(".rs"):
                        p = os.path.join(dp, fn)
                        out.append((os.path.relpath(p, core.REPO), p))
        _corpus = out
    return _corpus


def corpus_text(rng, maxlen=6000):
    """a fixture file that is valid UTF-8, reasonably small; returns (name, text)"""
    c = corpus()
    for _ in range(20):
        name, p = rng.choice(c)
        try:
            with open(p, "rb") as f:
                b = f.read()
            t = b.decode("utf-8")
        except (OSError, UnicodeDecodeError):
            continue
        if 0 < len(t) <= maxlen and "\r" not in t:
            return name, t
    return "gen", unformatted(rng)
