"""Generic seeded-search runner: generate -> execute -> oracle, minimise, replay, evidence."""
import re
import copy
import hashlib
import json
import multiprocessing as mp
import os
import resource
import sys
import time
import traceback

from . import core
from .prng import Rng, mix

DEFAULT_SEED = 20261002
NWORKERS = int(os.environ.get("VERIF_WORKERS", "16"))


class Violation:
    def __init__(self, cls, detail, extra=None):
        self.cls = cls  # class signature: oracle + specific failing site / relation
        self.detail = detail
        self.extra = extra or {}

    def to_json(self):
        return {"class": self.cls, "detail": self.detail, "extra": self.extra}


_SCRATCH = re.compile(r"/[^\s'\"`:]*verif-sim\.\d+\.\d+(?:/W)?")


class Verdict:
    """Outcome of executing one case."""

    def __init__(self):
        self.violations = []
        self.sigs = set()  # trace signatures of nontrivial simulated runs
        self.nproc = 0  # simulated processes
        self.ops = 0
        self.clock = 0
        self.faults_planned = {}
        self.faults_fired = {}
        self.probes = {}
        self.inconclusive = 0
        self.info = {}
        self.sample = None

    def add(self, cls, detail, **extra):
        # (the scratch directory of the run is not part of what happened)
        detail = _SCRATCH.sub("$ROOT", detail)
        self.violations.append(Violation(cls, detail, extra))

    def probe(self, name, n=1):
        self.probes[name] = self.probes.get(name, 0) + n

    def planned(self, kind, n=1):
        self.faults_planned[kind] = self.faults_planned.get(kind, 0) + n

    def fired(self, kind, n=1):
        self.faults_fired[kind] = self.faults_fired.get(kind, 0) + n

    def account(self, res, nontrivial=True):
        """book-keeping for one finished simulated process tree"""
        self.nproc += max(1, len(res.procs))
        self.ops += res.stats.get("ops", 0)
        self.clock += res.stats.get("clock", 0)
        if res.timed_out:
            self.inconclusive += 1
        if nontrivial:
            self.sigs.add(res.op_sig())

    def pack(self):
        return {
            "violations": [v.to_json() for v in self.violations],
            "sigs": sorted(self.sigs),
            "nproc": self.nproc,
            "ops": self.ops,
            "clock": self.clock,
            "faults_planned": self.faults_planned,
            "faults_fired": self.faults_fired,
            "probes": self.probes,
            "inconclusive": self.inconclusive,
            "info": self.info,
            "sample": self.sample,
        }


def _fault_kind(e):
    raw = e.raw
    if "crash_mid" in raw:
        return "crash_mid"
    if "crash_before" in raw:
        return "crash_before"
    if "torn" in raw:
        return "torn"
    if "errno=4 " in raw + " " and e.op in ("read", "write"):
        return "eintr"
    if e.op == "fault" and "errno=" in raw:
        return "errno"
    if "FAULT" in raw:
        return "errno"
    return "other"


# --------------------------------------------------------------------------- known findings

def load_findings():
    """finding lines: `finding: property=<id> class=<cls-prefix> <text>`; fixed: lines suppress nothing"""
    out = []
    p = os.path.join(core.VERIF, "KNOWN-FINDINGS.txt")
    if not os.path.exists(p):
        return out
    with open(p) as f:
        for line in f:
            line = line.strip()
            if not line.startswith("finding:"):
                continue
            parts = line[len("finding:"):].split(None, 2)
            d = {"text": parts[2] if len(parts) > 2 else ""}
            for kv in parts[:2]:
                k, _, v = kv.partition("=")
                d[k] = v
            if "property" in d and "class" in d:
                out.append(d)
    return out


def known(findings, prop, cls):
    for f in findings:
        if f["property"] == prop and (cls == f["class"] or cls.startswith(f["class"] + "|")):
            return f
    return None


# --------------------------------------------------------------------------- worker

_prop = None


def _init_worker(modname):
    global _prop
    import importlib

    os.environ["PYTHONHASHSEED"] = "0"
    resource.setrlimit(resource.RLIMIT_CORE, (0, 0))
    _prop = importlib.import_module(modname)


def _work(job):
    i, seed, tier = job
    try:
        rng = Rng(seed)
        case = _prop.generate(rng, tier)
        case["seed"] = seed
        case["index"] = i
        v = _prop.execute(case)
        out = v.pack()
        out["case"] = case if (out["violations"] or i < 3) else None
        out["i"] = i
        out["seed"] = seed
        return out
    except core.HarnessError as e:
        return {"i": i, "seed": seed, "harness_error": str(e)}
    except Exception:
        return {"i": i, "seed": seed, "harness_error": traceback.format_exc()}


def _exec_case(prop, case):
    try:
        return prop.execute(case)
    except core.HarnessError:
        raise
    except Exception:
        raise core.HarnessError(traceback.format_exc())


# --------------------------------------------------------------------------- minimiser

def minimise(prop, case, cls, budget=120):
    """greedy shrinking: keep a candidate if the same violation class persists"""
    if not hasattr(prop, "shrinks"):
        return case, 0
    tries = 0
    cur = case
    progress = True
    while progress and tries < budget:
        progress = False
        for cand in prop.shrinks(cur):
            if tries >= budget:
                break
            tries += 1
            try:
                v = _exec_case(prop, cand)
            except core.HarnessError:
                continue
            if any(x.cls == cls for x in v.violations):
                cur = cand
                progress = True
                break
    return cur, tries


def write_replay(propid, case, viol, minimised_tries):
    d = os.path.join(core.VERIF, "replays", propid)
    os.makedirs(d, exist_ok=True)
    clsid = hashlib.sha1(viol["class"].encode()).hexdigest()[:8]
    path = os.path.join(d, "%s-%d.json" % (clsid, case.get("seed", 0)))
    doc = {
        "property": propid,
        "class": viol["class"],
        "detail": viol["detail"],
        "extra": viol.get("extra", {}),
        "seed": case.get("seed"),
        "minimiser_runs": minimised_tries,
        "case": case,
    }
    with open(path, "w") as f:
        json.dump(doc, f, indent=1, sort_keys=True)
    return path


def replay(prop, propid, path):
    with open(path) as f:
        doc = json.load(f)
    core.build()
    v = _exec_case(prop, doc["case"])
    classes = [x.cls for x in v.violations]
    print("replay %s: expected class %s" % (path, doc["class"]))
    for x in v.violations:
        print("  observed: %s -- %s" % (x.cls, x.detail))
    if doc["class"] in classes:
        print("VIOLATION property=%s replay=%s" % (propid, path))
        return 1
    print("not reproduced")
    return 0


# --------------------------------------------------------------------------- main loop

def run_check(prop, propid, tier, seed, budget_s, max_cases, level, rule, assumptions, components):
    t_start = time.time()
    try:
        tb = core.build()
    except core.HarnessError as e:
        print("HARNESS-ERROR property=%s %s" % (propid, e))
        return 2
    print("seed=%d property=%s tier=%s build_s=%.1f" % (seed, propid, tier, tb))
    if hasattr(prop, "prepare"):
        try:
            prop.prepare(tier)
        except core.HarnessError as e:
            print("HARNESS-ERROR property=%s %s" % (propid, e))
            return 2
    findings = load_findings()
    jobs = ((i, mix(seed, propid, i), tier) for i in range(max_cases))
    agg = {
        "cases": 0, "nproc": 0, "ops": 0, "clock": 0, "inconclusive": 0,
        "planned": {}, "fired": {}, "probes": {}, "sigs": set(), "info": {},
    }
    samples = []
    viols = []  # (case, violation json)
    herrs = []
    deadline = time.time() + budget_s  # the batch budget starts after the (re)build
    pool = mp.Pool(NWORKERS, initializer=_init_worker, initargs=(prop.__name__,))
    try:
        pending = []
        it = iter(jobs)
        done_feeding = False
        results = {}
        nexti = 0
        # feed in windows so that the budget can stop the batch; merge in index order
        while True:
            while not done_feeding and len(pending) < NWORKERS * 3:
                if time.time() > deadline:
                    done_feeding = True
                    break
                try:
                    job = next(it)
                except StopIteration:
                    done_feeding = True
                    break
                pending.append(pool.apply_async(_work, (job,)))
            if not pending:
                break
            r = pending.pop(0).get()
            results[r["i"]] = r
            while nexti in results:
                r = results.pop(nexti)
                nexti += 1
                if "harness_error" in r:
                    herrs.append(r)
                    continue
                agg["cases"] += 1
                for k in ("nproc", "ops", "clock", "inconclusive"):
                    agg[k] += r[k]
                for src, dst in (("faults_planned", "planned"), ("faults_fired", "fired"), ("probes", "probes")):
                    for k, v in r[src].items():
                        agg[dst][k] = agg[dst].get(k, 0) + v
                for k, v in r["info"].items():
                    if isinstance(v, (int, float)):
                        agg["info"][k] = agg["info"].get(k, 0) + v
                agg["sigs"].update(r["sigs"])
                if r.get("sample") is not None and len(samples) < 3:
                    samples.append(r["sample"])
                for v in r["violations"]:
                    viols.append((r["case"], v))
    finally:
        pool.terminate()
        pool.join()

    # classify
    seen_known = {}
    new_by_class = {}
    for case, v in viols:
        if v["class"].startswith("HARNESS:"):
            # the harness could not do what it planned: never reported as a violation of the property
            herrs.append({"i": case.get("index", -1) if case else -1, "seed": case.get("seed", 0) if case else 0,
                          "harness_error": v["class"] + " " + v["detail"]})
            continue
        k = known(findings, propid, v["class"])
        if k:
            seen_known.setdefault(k["class"], (k, v, 0))
            kk, vv, n = seen_known[k["class"]]
            seen_known[k["class"]] = (kk, vv, n + 1)
        else:
            new_by_class.setdefault(v["class"], (case, v))
    for cls in sorted(seen_known):
        k, v, n = seen_known[cls]
        print("KNOWN-FINDING: property=%s class=%s %s (seen %d times this run; e.g. %s)" % (
            propid, cls, k["text"], n, v["detail"][:200]))
    rc = 0
    if herrs:
        for h in herrs[:3]:
            print("HARNESS-ERROR property=%s case=%d seed=%d\n%s" % (propid, h["i"], h["seed"], h["harness_error"]))
        rc = 2
    nviol = 0
    for cls in sorted(new_by_class):
        case, v = new_by_class[cls]
        if time.time() - t_start < budget_s * 3:
            mcase, tries = minimise(prop, case, v["class"])
        else:
            mcase, tries = case, 0
        path = write_replay(propid, mcase, v, tries)
        print("violation class=%s detail=%s" % (v["class"], v["detail"][:600]))
        print("VIOLATION property=%s replay=%s" % (propid, path))
        nviol += 1
    if nviol:
        rc = 1 if rc == 0 else rc

    wall = time.time() - t_start
    cov = {
        "evaluations": agg["nproc"],
        "distinct_nontrivial": len(agg["sigs"]),
        "rule": rule,
        "samples": samples if samples else [{"note": "no sample recorded"}],
        "cases": agg["cases"],
        "simulated_processes": agg["nproc"],
        "intercepted_operations": agg["ops"],
        "virtual_clock_reads": agg["clock"],
        "simulated_time_ms": agg["clock"],
        "runs_per_hour": int(agg["nproc"] / wall * 3600) if wall > 0 else 0,
        "cases_per_hour": int(agg["cases"] / wall * 3600) if wall > 0 else 0,
        "seeds": "case i uses mix(VERIF_SEED=%d, %s, i), i in [0,%d)" % (seed, propid, agg["cases"]),
        "faults_planned": agg["planned"],
        "faults_fired": agg["fired"],
        "probes_reached": agg["probes"],
        "inconclusive_timeouts": agg["inconclusive"],
        "harness_errors": len(herrs),
        "known_findings_seen": {c: seen_known[c][2] for c in seen_known},
        "components": components,
        "workers": NWORKERS,
        "build_s": round(tb, 2),
    }
    cov.update({k: v for k, v in agg["info"].items()})
    ev = {
        "property_id": propid,
        "tier": tier,
        "seed": seed,
        "level": level,
        "coverage": cov,
        "assumptions": assumptions,
        "wall_s": round(wall, 2),
        "violations": nviol,
    }
    os.makedirs(os.path.join(core.VERIF, "evidence"), exist_ok=True)
    with open(os.path.join(core.VERIF, "evidence", propid + ".json"), "w") as f:
        json.dump(ev, f, indent=1, sort_keys=True, default=str)
    print("property=%s cases=%d processes=%d distinct_sigs=%d violations=%d known=%d inconclusive=%d wall=%.1fs rc=%d" % (
        propid, agg["cases"], agg["nproc"], len(agg["sigs"]), nviol, len(seen_known), agg["inconclusive"], wall, rc))
    return rc


def determinism(prop, propid, seed, n, tier="quick"):
    """run the first n cases twice (pool sizes 16 and 5, different scratch roots) and diff everything"""
    core.build()
    if hasattr(prop, "prepare"):
        prop.prepare(tier)
    jobs = [(i, mix(seed, propid, i), tier) for i in range(n)]
    outs = []
    for nw in (NWORKERS, 5):
        pool = mp.Pool(nw, initializer=_init_worker, initargs=(prop.__name__,))
        try:
            outs.append(pool.map(_work, jobs, chunksize=1))
        finally:
            pool.terminate()
            pool.join()
    bad = 0
    for a, b in zip(*outs):
        ka = {k: a.get(k) for k in ("violations", "sigs", "nproc", "ops", "faults_fired", "probes", "harness_error")}
        kb = {k: b.get(k) for k in ("violations", "sigs", "nproc", "ops", "faults_fired", "probes", "harness_error")}
        if json.dumps(ka, sort_keys=True, default=str) != json.dumps(kb, sort_keys=True, default=str):
            bad += 1
            if bad <= 3:
                for k in ka:
                    if ka[k] != kb[k]:
                        print("DIVERGENCE case=%d seed=%d key=%s\n  A=%s\n  B=%s" % (a["i"], a["seed"], k, str(ka[k])[:600], str(kb[k])[:600]))
    print("determinism property=%s cases=%d divergent=%d" % (propid, n, bad))
    return 2 if bad else 0
