"""Option pool, TOML rendering and the reference model of configuration discovery."""
import os

# name -> list of valid values (python values; bool/int/str)
POOL = {
    "max_width": [50, 60, 70, 80, 100, 120, 140],
    "tab_spaces": [2, 3, 4, 8],
    "hard_tabs": [True, False],
    "newline_style": ["Unix", "Windows", "Auto"],
    "brace_style": ["AlwaysNextLine", "PreferSameLine", "SameLineWhere"],
    "control_brace_style": ["AlwaysSameLine", "ClosingNextLine", "AlwaysNextLine"],
    "fn_params_layout": ["Compressed", "Tall", "Vertical"],
    "use_small_heuristics": ["Default", "Max", "Off"],
    "fn_call_width": [20, 40, 60, 90, 110],
    "attr_fn_like_width": [30, 70, 100],
    "struct_lit_width": [0, 18, 40, 90],
    "struct_variant_width": [0, 35, 80],
    "array_width": [10, 60, 100],
    "chain_width": [20, 60, 100],
    "single_line_if_else_max_width": [0, 50, 90],
    "reorder_imports": [True, False],
    "reorder_modules": [True, False],
    "imports_granularity": ["Preserve", "Crate", "Module", "Item", "One"],
    "group_imports": ["Preserve", "StdExternalCrate", "One"],
    "edition": ["2015", "2018", "2021", "2024"],
    "style_edition": ["2015", "2018", "2021", "2024"],
    "version": ["One", "Two"],
    "match_block_trailing_comma": [True, False],
    "trailing_comma": ["Always", "Never", "Vertical"],
    "trailing_semicolon": [True, False],
    "space_before_colon": [True, False],
    "space_after_colon": [True, False],
    "spaces_around_ranges": [True, False],
    "struct_field_align_threshold": [0, 20],
    "indent_style": ["Block", "Visual"],
    "empty_item_single_line": [True, False],
    "fn_single_line": [True, False],
    "where_single_line": [True, False],
    "use_field_init_shorthand": [True, False],
    "use_try_shorthand": [True, False],
    "normalize_comments": [True, False],
    "wrap_comments": [True, False],
    "comment_width": [40, 80],
    "format_strings": [True, False],
    "overflow_delimited_expr": [True, False],
    "combine_control_expr": [True, False],
    "blank_lines_upper_bound": [0, 1, 3],
    "match_arm_blocks": [True, False],
    "match_arm_leading_pipes": ["Always", "Never", "Preserve"],
    "remove_nested_parens": [True, False],
    "condense_wildcard_suffixes": [True, False],
    "type_punctuation_density": ["Compressed", "Wide"],
    "binop_separator": ["Front", "Back"],
    "hex_literal_case": ["Preserve", "Upper", "Lower"],
    "merge_derives": [True, False],
    "force_explicit_abi": [True, False],
    "force_multiline_blocks": [True, False],
    "inline_attribute_width": [0, 50],
    "imports_layout": ["Vertical", "Horizontal", "HorizontalVertical", "Mixed"],
    "imports_indent": ["Block", "Visual"],
    "reorder_impl_items": [True, False],
    "struct_lit_single_line": [True, False],
    "normalize_doc_attributes": [True, False],
    "show_parse_errors": [True, False],
    "skip_macro_invocations": [["*"], ["println"], ["vec"], []],
}
# deprecated alias -> (successor, value map)
ALIASES = {
    "fn_args_layout": ("fn_params_layout", {"Compressed": "Compressed", "Tall": "Tall", "Vertical": "Vertical"}),
    "merge_imports": ("imports_granularity", {True: "Crate", False: "Preserve"}),
    "hide_parse_errors": ("show_parse_errors", {True: False, False: True}),
}
WIDTHS = ["fn_call_width", "attr_fn_like_width", "struct_lit_width", "struct_variant_width", "array_width",
          "chain_width", "single_line_if_else_max_width", "single_line_let_else_max_width"]
COMMON = ["max_width", "tab_spaces", "hard_tabs", "brace_style", "fn_params_layout", "newline_style",
          "use_small_heuristics", "reorder_imports", "imports_granularity", "edition", "style_edition"]


def toml_value(v):
    if isinstance(v, list):
        return "[%s]" % ", ".join(toml_value(x) for x in v)
    if isinstance(v, bool):
        return "true" if v else "false"
    if isinstance(v, int):
        return str(v)
    return '"%s"' % v


def render(opts):
    return "".join("%s = %s\n" % (k, toml_value(v)) for k, v in opts.items())


def cli_value(v):
    if isinstance(v, list):
        import json
        return json.dumps(v, separators=(",", ":"))
    if isinstance(v, bool):
        return "true" if v else "false"
    return str(v)


def draw_opts(rng, n, exclude=(), allow_alias=True, keys=None):
    """n options with values; never an alias together with its successor"""
    out = {}
    names = list(keys) if keys else (COMMON * 3 + sorted(POOL))
    tries = 0
    while len(out) < n and tries < 50:
        tries += 1
        k = rng.choice(names)
        if k in out or k in exclude:
            continue
        if allow_alias and k in ("fn_params_layout", "imports_granularity", "show_parse_errors") and rng.chance(25):
            alias = {"fn_params_layout": "fn_args_layout", "imports_granularity": "merge_imports",
                     "show_parse_errors": "hide_parse_errors"}[k]
            if alias in exclude:
                continue
            out[alias] = rng.choice(sorted(ALIASES[alias][1], key=str))
            continue
        out[k] = rng.choice(POOL[k])
    return out


def successors(opts):
    """map deprecated aliases to their successors (the documented meaning)"""
    out = {}
    for k, v in opts.items():
        if k in ALIASES:
            succ, vm = ALIASES[k]
            out[succ] = vm[v]
        else:
            out[k] = v
    return out


def resolve(world_files, probe_dir, home, xdg, config_path=None):
    """Reference model of discovery.  Returns rel path of the config file in force, or None.
    world_files: set of rel paths that are regular files; directories named like configs are not files."""
    names = (".rustfmt.toml", "rustfmt.toml")

    def in_dir(d):
        for n in names:
            p = os.path.normpath(os.path.join(d, n))
            if p in world_files:
                return p
        return None

    if config_path is not None:
        if config_path in world_files:
            return config_path
        return in_dir(config_path)  # a directory
    d = os.path.normpath(probe_dir)
    while True:
        hit = in_dir(d)
        if hit:
            return hit
        if d in (".", ""):
            break
        d = os.path.dirname(d) or "."
    if home is not None:
        hit = in_dir(home)
        if hit:
            return hit
    cfgdir = xdg if xdg is not None else (os.path.join(home, ".config") if home is not None else None)
    if cfgdir is not None:
        hit = in_dir(os.path.join(cfgdir, "rustfmt"))
        if hit:
            return hit
    return None


PROBE = '''use std::{io,fmt};
use std::collections::HashMap;
use crate::zeta::Thing;
use std::cmp::Ordering;
use crate::alpha::{b,a};
#[derive(Debug)]
#[derive(Clone)]
pub struct Point{pub x:i32,pub long_field_name:u64,y:Option<Vec<String>>}
enum Shape{Circle{radius:f64},Square(u8,u8),Empty}
impl Point{
pub fn new(x:i32,long_field_name:u64,y:Option<Vec<String>>,another_parameter:usize,yet_another_one:&str)->Self where Self:Sized{
let p=Point{x:x,long_field_name:long_field_name,y:y};
if another_parameter>3{return p;}else{println!("{}",yet_another_one);}
let v=vec![1,2,3,4,5,6,7,8,9,10,11,12,13,14,15,16,17,18,19,20,21,22,23,24,25,26,27,28,29,30];
let total=v.iter().map(|e|e*2).filter(|e|e%3==0).map(|e|e+another_parameter as i32).sum::<i32>()+0xabCD;
let r=some_function_name(first_argument_value,second_argument_value,third_argument,4);
match total{0=>{println!("zero")}1|2=>println!("small"),n if n>100=>{let q=n*2;println!("{}",q)}_=>{}}
for i in 0 .. 10{let _=i;}
let s=Shape::Circle{radius:1.0};
let t=(((total)));
/* block comment that is long enough to be wrapped when the comment width is small enough, words words words */
p}
}
fn one()->u8{1}
fn empty(){}
extern fn abi(){}
'''
