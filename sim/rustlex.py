"""A small Rust tokeniser (strings, raw strings, chars vs lifetimes, nested block comments) used to
apply token-level damage to stored source bytes."""

OPEN = "([{"
CLOSE = ")]}"


def tokens(src):
    """list of (kind, text); kinds: ws, lcomment, bcomment, str, rawstr, char, lifetime, ident, num, punct"""
    out = []
    i, n = 0, len(src)
    while i < n:
        c = src[i]
        if c.isspace():
            j = i
            while j < n and src[j].isspace():
                j += 1
            out.append(("ws", src[i:j]))
            i = j
        elif src.startswith("//", i):
            j = src.find("\n", i)
            j = n if j < 0 else j
            out.append(("lcomment", src[i:j]))
            i = j
        elif src.startswith("/*", i):
            depth, j = 1, i + 2
            while j < n and depth:
                if src.startswith("/*", j):
                    depth += 1
                    j += 2
                elif src.startswith("*/", j):
                    depth -= 1
                    j += 2
                else:
                    j += 1
            out.append(("bcomment", src[i:j]))
            i = j
        elif c == "r" and i + 1 < n and src[i + 1] in '#"' and _raw(src, i + 1) is not None:
            j = _raw(src, i + 1)
            out.append(("rawstr", src[i:j]))
            i = j
        elif c == "b" and i + 1 < n and src[i + 1] == "r" and i + 2 < n and src[i + 2] in '#"' and _raw(src, i + 2) is not None:
            j = _raw(src, i + 2)
            out.append(("rawstr", src[i:j]))
            i = j
        elif c == '"' or (c in "bc" and i + 1 < n and src[i + 1] == '"'):
            j = i + (1 if c == '"' else 2)
            while j < n and src[j] != '"':
                j += 2 if src[j] == "\\" else 1
            j = min(n, j + 1)
            out.append(("str", src[i:j]))
            i = j
        elif c == "'":
            # char literal or lifetime
            if i + 2 < n and src[i + 1] == "\\":
                j = i + 2
                while j < n and src[j] != "'" and src[j] != "\n":
                    j += 1
                out.append(("char", src[i:j + 1]))
                i = j + 1
            elif i + 2 < n and src[i + 2] == "'":
                out.append(("char", src[i:i + 3]))
                i += 3
            else:
                j = i + 1
                while j < n and (src[j].isalnum() or src[j] == "_"):
                    j += 1
                out.append(("lifetime", src[i:max(j, i + 1)]))
                i = max(j, i + 1)
        elif c.isalpha() or c == "_":
            j = i
            while j < n and (src[j].isalnum() or src[j] == "_"):
                j += 1
            out.append(("ident", src[i:j]))
            i = j
        elif c.isdigit():
            j = i
            while j < n and (src[j].isalnum() or src[j] in "_."):
                if src[j] == "." and (j + 1 >= n or not src[j + 1].isdigit()):
                    break
                j += 1
            out.append(("num", src[i:j]))
            i = j
        else:
            out.append(("punct", c))
            i += 1
    return out


def _raw(src, i):
    """src[i] is '#' or '"' after r / br; returns end index or None"""
    n = len(src)
    h = 0
    while i < n and src[i] == "#":
        h += 1
        i += 1
    if i >= n or src[i] != '"':
        return None
    end = src.find('"' + "#" * h, i + 1)
    return n if end < 0 else end + 1 + h


NONASCII = ["é", "、", "🦀", "ß", "​", "Ω", "í̃", " "]


def mutate(rng, src, nmut):
    """apply nmut token-level mutations; returns (text, [descriptions])"""
    desc = []
    for _ in range(nmut):
        toks = tokens(src)
        sig = [k for k, (kind, _) in enumerate(toks) if kind != "ws"]
        if len(sig) < 3:
            break
        kind = rng.choice(["delete", "duplicate", "swap", "truncate", "unbalance", "nonascii", "nonascii", "unicode-space"])
        k = rng.choice(sig)
        if kind == "unicode-space":
            # non-ASCII insertion at raw-text level: one ASCII blank anywhere (code, comment, string) becomes a
            # Unicode space
            pos = [i for i, ch in enumerate(src) if ch in " \t"]
            if pos:
                # blanks directly before a non-blank are the interesting ones (alignment code looks at them)
                edge = [i for i in pos if i + 1 < len(src) and not src[i + 1].isspace()]
                punct = [i for i in edge if src[i + 1] in "*/{}()[]<>=|&!#\"'"]
                r = rng.below(100)
                i = rng.choice(punct if punct and r < 40 else edge if edge and r < 80 else pos)
                src = src[:i] + rng.choice(["\u3000", "\u00a0", "\u2003", "\u2028", "\u1680"]) + src[i + 1:]
            desc.append(kind)
            continue
        if kind == "delete":
            toks.pop(k)
        elif kind == "duplicate":
            toks.insert(k, toks[k])
        elif kind == "swap":
            k2 = sig[min(sig.index(k) + 1, len(sig) - 1)]
            toks[k], toks[k2] = toks[k2], toks[k]
        elif kind == "truncate":
            cut = rng.choice(["token", "mid"])
            toks = toks[:k + 1]
            if cut == "mid" and len(toks[-1][1]) > 1:
                t = toks[-1]
                toks[-1] = (t[0], t[1][: 1 + rng.below(len(t[1]) - 1)])
        elif kind == "unbalance":
            delims = [j for j in sig if toks[j][0] == "punct" and toks[j][1] in OPEN + CLOSE]
            if delims and rng.chance(60):
                toks.pop(rng.choice(delims))
            else:
                toks.insert(k, ("punct", rng.choice(OPEN + CLOSE)))
        else:
            ch = rng.choice(NONASCII)
            t = toks[k]
            how = rng.below(3)
            if how == 0 and len(t[1]) > 1:
                p = 1 + rng.below(len(t[1]) - 1)
                toks[k] = (t[0], t[1][:p] + ch + t[1][p:])
            elif how == 1:
                toks.insert(k, ("punct", ch))
            else:
                toks[k] = (t[0], t[1] + ch)
        desc.append(kind)
        src = "".join(t for _, t in toks)
    return src, desc


def relayout(rng, src):
    """re-lay out a source arbitrarily: every whitespace run is redrawn and line breaks / blanks are inserted at
    random token boundaries (tokens themselves, incl. strings and comments, are kept)"""
    toks = tokens(src)
    out = []
    ws = [" ", " ", "\n", "\n\n", "\t", "  ", "\n        ", "\r\n", " \n \n\n"]
    prev = None
    for kind, text in toks:
        if kind == "ws":
            out.append(rng.choice(ws))
        else:
            if prev is not None and prev != "ws" and rng.chance(12):
                # only between tokens that do not glue into another token
                if not (prev == "punct" and kind == "punct"):
                    out.append(rng.choice(ws))
            out.append(text)
            if kind == "lcomment":
                out.append("\n")
        prev = kind
    return "".join(out)


def amplify(rng, src, depth):
    """wrap an expression in `depth` levels of ordinary nesting (blocks / closures / parens / if)"""
    inner = "1"
    for d in range(depth):
        k = rng.below(5)
        if k == 0:
            inner = "{ %s }" % inner
        elif k == 1:
            inner = "(%s)" % inner
        elif k == 2:
            inner = "(|x%d: u32| %s)(%d)" % (d, inner, d)
        elif k == 3:
            inner = "if a%d { %s } else { 0 }" % (d, inner)
        else:
            inner = "match %d { _ => %s }" % (d, inner)
    return src + "\nfn amplified() -> u32 {\n    let v = %s;\n    v\n}\n" % inner
