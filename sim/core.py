"""simworld core: build, worlds, simulated invocations, event logs, snapshots."""
import base64
import fcntl
import hashlib
import json
import os
import re
import shutil
import signal
import subprocess
import sys
import time

VERIF = os.path.dirname(os.path.dirname(os.path.abspath(__file__)))
REPO = os.environ.get("VERIF_REPO", "/repo")
CACHE = os.environ.get("VERIF_CACHE") or os.path.join(VERIF, ".cache")
TARGET = os.path.join(CACHE, "target")
BIN = os.path.join(TARGET, "debug")
SHIM = os.path.join(CACHE, "simfs.so")
STUB = os.path.join(CACHE, "stub-rustfmt")
GUARD = "rustfmt_verif"
FIXED_MTIME = 1_500_000_000  # every world file starts with this mtime
PROC_TIMEOUT = float(os.environ.get("VERIF_PROC_TIMEOUT", "120"))


class HarnessError(Exception):
    pass


# --------------------------------------------------------------------------- build

_toolinfo = None


def toolinfo():
    """sysroot lib dir and cargo path of /repo's pinned toolchain (cached on disk by setup)."""
    global _toolinfo
    if _toolinfo is None:
        p = os.path.join(CACHE, "toolinfo.json")
        if not os.path.exists(p):
            compute_toolinfo()
        with open(p) as f:
            _toolinfo = json.load(f)
    return _toolinfo


def compute_toolinfo():
    os.makedirs(CACHE, exist_ok=True)
    env = dict(os.environ)
    sysroot = subprocess.check_output(["rustc", "--print", "sysroot"], cwd=REPO, env=env, text=True).strip()
    cargo = subprocess.check_output(["rustup", "which", "cargo"], cwd=REPO, env=env, text=True).strip()
    rustc = subprocess.check_output(["rustup", "which", "rustc"], cwd=REPO, env=env, text=True).strip()
    info = {"sysroot_lib": os.path.join(sysroot, "lib"), "cargo": cargo, "rustc": rustc}
    with open(os.path.join(CACHE, "toolinfo.json"), "w") as f:
        json.dump(info, f)
    return info


def build_c():
    os.makedirs(CACHE, exist_ok=True)
    src = os.path.join(VERIF, "sim")
    for out, args in (
        (SHIM, ["gcc", "-O2", "-fno-delete-null-pointer-checks", "-shared", "-fPIC", "-o", SHIM + ".tmp", os.path.join(src, "simfs.c"), "-ldl"]),
        (STUB, ["gcc", "-O2", "-o", STUB + ".tmp", os.path.join(src, "stub_rustfmt.c")]),
    ):
        srcf = args[-2] if out == SHIM else args[-1]
        if os.path.exists(out) and os.path.getmtime(out) >= os.path.getmtime(srcf):
            continue
        r = subprocess.run(args, capture_output=True, text=True)
        if r.returncode != 0:
            raise HarnessError("gcc failed: " + r.stderr)
        os.replace(out + ".tmp", out)


def build(quiet=True):
    """(Re)build the three tools from /repo's current working tree with the guard on."""
    os.makedirs(CACHE, exist_ok=True)
    lock = open(os.path.join(CACHE, "build.lock"), "w")
    fcntl.flock(lock, fcntl.LOCK_EX)
    try:
        build_c()
        env = dict(os.environ)
        env["CARGO_NET_OFFLINE"] = "true"
        env["RUSTFLAGS"] = "--cfg " + GUARD
        env["CARGO_TARGET_DIR"] = TARGET
        t0 = time.time()
        r = subprocess.run(
            ["cargo", "build", "--offline", "--bins"], cwd=REPO, env=env, capture_output=True, text=True
        )
        if r.returncode != 0:
            raise HarnessError("cargo build failed:\n" + r.stderr[-4000:])
        for b in ("rustfmt", "cargo-fmt", "rustfmt-format-diff"):
            if not os.path.exists(os.path.join(BIN, b)):
                raise HarnessError("missing binary " + b)
        toolinfo()
        return time.time() - t0
    finally:
        fcntl.flock(lock, fcntl.LOCK_UN)
        lock.close()


def build_driver():
    """(Re)build sim/session_driver against the repo's current working tree (library API lane of C14 / C15)."""
    src = os.path.join(VERIF, "sim", "session_driver")
    work = os.path.join(CACHE, "session_driver")
    os.makedirs(os.path.join(work, "src"), exist_ok=True)
    with open(os.path.join(src, "Cargo.toml")) as f:
        manifest = f.read().replace("REPO_PATH", REPO)
    _write_if_changed(os.path.join(work, "Cargo.toml"), manifest)
    for name in ("Cargo.lock", "rust-toolchain"):
        with open(os.path.join(REPO, name)) as f:
            _write_if_changed(os.path.join(work, name), f.read())
    with open(os.path.join(src, "src", "main.rs")) as f:
        _write_if_changed(os.path.join(work, "src", "main.rs"), f.read())
    lock = open(os.path.join(CACHE, "build.lock"), "w")
    fcntl.flock(lock, fcntl.LOCK_EX)
    try:
        env = dict(os.environ)
        env["CARGO_NET_OFFLINE"] = "true"
        env["RUSTFLAGS"] = "--cfg " + GUARD
        env["CARGO_TARGET_DIR"] = os.path.join(CACHE, "target-driver")
        r = subprocess.run(["cargo", "build", "--offline"], cwd=work, env=env, capture_output=True, text=True)
        if r.returncode != 0:
            raise HarnessError("session-driver build failed:\n" + r.stderr[-3000:])
    finally:
        fcntl.flock(lock, fcntl.LOCK_UN)
        lock.close()
    return os.path.join(CACHE, "target-driver", "debug", "session-driver")


def _write_if_changed(path, text):
    try:
        with open(path) as f:
            if f.read() == text:
                return
    except OSError:
        pass
    with open(path, "w") as f:
        f.write(text)


DRIVER = os.path.join(CACHE, "target-driver", "debug", "session-driver")


# --------------------------------------------------------------------------- worlds

_scratch_n = 0


def scratch_base():
    for d in ("/dev/shm", os.environ.get("TMPDIR", ""), "/var/tmp"):
        if d and os.path.isdir(d) and os.access(d, os.W_OK):
            return d
    raise HarnessError("no scratch directory")


class Scratch:
    """A private scratch root: <base>/verif-sim.<pid>.<n>/ with W/ (world) and L<k>/ (logs)."""

    def __init__(self):
        global _scratch_n
        _scratch_n += 1
        # fixed-width name: the length of absolute paths printed by the tools decides where their output buffers flush
        self.top = os.path.join(scratch_base(), "verif-sim.%07d.%07d" % (os.getpid(), _scratch_n))
        if os.path.exists(self.top):
            shutil.rmtree(self.top)
        os.makedirs(self.top)
        self.root = os.path.join(self.top, "W")
        self.nlog = 0

    def __enter__(self):
        return self

    def __exit__(self, *a):
        self.close()

    def close(self):
        shutil.rmtree(self.top, ignore_errors=True)

    def fresh_world(self, world):
        if os.path.exists(self.root):
            _force_rmtree(self.root)
        build_world(self.root, world)
        return self.root

    def logdir(self):
        self.nlog += 1
        d = os.path.join(self.top, "L%d" % self.nlog)
        os.makedirs(d)
        return d


def _force_rmtree(p):
    def onerr(fn, path, exc):
        try:
            os.chmod(os.path.dirname(path), 0o755)
            os.chmod(path, 0o755)
            fn(path)
        except Exception:
            pass

    shutil.rmtree(p, onerror=onerr)


def file_bytes(spec):
    if isinstance(spec, str):
        return spec.encode("utf-8")
    if "b64" in spec:
        return base64.b64decode(spec["b64"])
    return spec.get("text", "").encode("utf-8")


def build_world(root, world):
    """world = {"files": {rel: str | {"text"|"b64", "mode"} | {"symlink": target} | {"dir": true}}}"""
    os.makedirs(root)
    files = world["files"]
    hard = []
    for rel in sorted(files):
        spec = files[rel]
        p = os.path.join(root, rel)
        os.makedirs(os.path.dirname(p), exist_ok=True)
        if isinstance(spec, dict) and "hardlink" in spec:
            hard.append((p, os.path.join(root, spec["hardlink"])))
            continue
        if isinstance(spec, dict) and "symlink" in spec:
            os.symlink(spec["symlink"], p)
            continue
        if isinstance(spec, dict) and spec.get("dir"):
            os.makedirs(p, exist_ok=True)
            continue
        with open(p, "wb") as f:
            f.write(file_bytes(spec))
        if isinstance(spec, dict) and "mode" in spec:
            os.chmod(p, spec["mode"])
    for p, target in hard:
        os.link(target, p)  # a second name for the same inode
    for dp, dns, fns in os.walk(root):
        for n in fns + dns:
            p = os.path.join(dp, n)
            try:
                os.utime(p, (FIXED_MTIME, FIXED_MTIME), follow_symlinks=False)
            except OSError:
                pass
    os.utime(root, (FIXED_MTIME, FIXED_MTIME))


def snapshot(root):
    """rel -> (sha256 | 'dir' | 'link:<t>', inode, mtime_ns, size)"""
    snap = {}
    for dp, dns, fns in os.walk(root):
        dns.sort()
        for n in sorted(fns + dns):
            p = os.path.join(dp, n)
            rel = os.path.relpath(p, root)
            try:
                st = os.lstat(p)
            except OSError:
                continue
            if os.path.islink(p):
                kind = "link:" + os.readlink(p)
            elif os.path.isdir(p):
                kind = "dir"
            else:
                try:
                    with open(p, "rb") as f:
                        kind = hashlib.sha256(f.read()).hexdigest()
                except OSError:
                    kind = "unreadable"
            snap[rel] = (kind, st.st_ino, st.st_mtime_ns, st.st_size)
    return snap


def read_rel(root, rel):
    try:
        with open(os.path.join(root, rel), "rb") as f:
            return f.read()
    except OSError:
        return None


def snap_diff(a, b, ignore_dirs=True):
    """paths whose content/identity differ between two snapshots: rel -> (before, after)"""
    out = {}
    for k in sorted(set(a) | set(b)):
        x, y = a.get(k), b.get(k)
        if x == y:
            continue
        if ignore_dirs and x and y and x[0] == "dir" and y[0] == "dir":
            continue  # directory mtime changes when entries are created
        out[k] = (x, y)
    return out


# --------------------------------------------------------------------------- invocations

class Event:
    __slots__ = ("seq", "op", "path", "path2", "mut", "res", "errno", "fault", "raw", "n", "h", "proc")

    def __repr__(self):
        return self.raw

    def norm(self):
        """normalised form for trace signatures / determinism diffs"""
        return self.raw


_ev_re = re.compile(r"^(\d+) (\S+) ?(.*)$")
_ice_re = re.compile(r"rustc-ice-[0-9T_:\-]+\.txt")


def parse_log(text, proc):
    evs = []
    for line in text.splitlines():
        if not line or line[0] == "#":
            continue
        m = _ev_re.match(line)
        if not m:
            continue
        e = Event()
        e.proc = proc
        e.seq = int(m.group(1))
        e.op = m.group(2)
        rest = _ice_re.sub("rustc-ice.txt", m.group(3))
        e.raw = "%s %s" % (e.op, rest)
        e.mut = " MUT" in rest
        e.fault = "FAULT" in rest or e.op == "fault"
        e.path = e.path2 = None
        e.res = None
        e.errno = 0
        e.n = None
        e.h = None
        mm = re.search(r"errno=(\d+)", rest)
        if mm:
            e.errno = int(mm.group(1))
        mm = re.search(r"-> (-?\d+)", rest)
        if mm:
            e.res = int(mm.group(1))
        if e.op == "rename":
            mm = re.match(r"(\S+) -> (\S+)", rest)
            if mm:
                e.path, e.path2 = mm.group(1), mm.group(2)
            e.mut = True
        elif e.op in ("spawn", "exec"):
            mm = re.match(r"(\S+) argv=(.*?)(-> .*)?$", rest)
            if mm:
                e.path = mm.group(1)
                e.path2 = [_unesc(a) for a in mm.group(2).split(" ") if a != ""]
        elif e.op in ("wait", "getrandom", "crash"):
            pass
        elif e.op == "fault":
            pass
        else:
            e.path = rest.split(" ", 1)[0] if rest else None
            mm = re.search(r" n=(\d+)", rest)
            if mm:
                e.n = int(mm.group(1))
            mm = re.search(r" h=([0-9a-f]+)", rest)
            if mm:
                e.h = mm.group(1)
        evs.append(e)
    return evs


def _unesc(s):
    return re.sub(r"\\x([0-9a-f]{2})", lambda m: chr(int(m.group(1), 16)), s)


class Result:
    def __init__(self):
        self.exit = None
        self.signal = None
        self.stdout = b""
        self.stderr = b""
        self.procs = []  # list of event lists, index = process start order
        self.timed_out = False
        self.wall = 0.0
        self.stats = {}

    @property
    def events(self):
        return self.procs[0] if self.procs else []

    def all_events(self):
        for p in self.procs:
            for e in p:
                yield e

    def muts(self, proc=None):
        return [e for e in (self.all_events() if proc is None else self.procs[proc]) if e.mut and not e.fault]

    def status(self):
        if self.timed_out:
            return "timeout"
        if self.signal:
            return "signal:%d" % self.signal
        return "exit:%d" % self.exit

    def trace_sig(self):
        h = hashlib.sha1()
        for i, p in enumerate(self.procs):
            for e in p:
                h.update(("%d|%s\n" % (i, e.raw)).encode())
        h.update(self.status().encode())
        return h.hexdigest()[:16]

    def op_sig(self):
        """coarser signature: (op, path, result class) sequence"""
        h = hashlib.sha1()
        for i, p in enumerate(self.procs):
            for e in p:
                rc = "F" if e.fault else ("E%d" % e.errno if e.errno else "ok")
                h.update(("%d|%s|%s|%s\n" % (i, e.op, e.path if isinstance(e.path, str) else "", rc)).encode())
        h.update(self.status().encode())
        return h.hexdigest()[:16]


BASE_ENV_KEYS = ("HOME", "XDG_CONFIG_HOME", "TERM")


def run_inv(scratch, inv, extra_env=None):
    """Run one simulated process in scratch.root.

    inv = {"tool": "rustfmt"|"cargo-fmt"|"rustfmt-format-diff"|<abs path>,
           "argv": [...], "cwd": rel (default "."), "stdin": str|{"b64"}|None,
           "env": {...} (complete simulated environment besides the harness plumbing),
           "hashseed": int, "plan": [rule lines]}
    """
    root = scratch.root
    logdir = scratch.logdir()
    tool = inv.get("tool", "rustfmt")
    exe = tool if os.path.isabs(tool) else os.path.join(BIN, tool)
    ti = toolinfo()
    env = {
        "PATH": "/usr/bin:/bin",
        "TERM": "dumb",
        "LD_LIBRARY_PATH": ti["sysroot_lib"],
        "LD_PRELOAD": SHIM,
        "SIMFS_DIR": logdir,
        "SIMFS_ROOT": root,
        "SIMFS_SEED": str(inv.get("hashseed", 0)),
        "HOME": os.path.join(root, "home"),
    }
    for k, v in (inv.get("env") or {}).items():
        if v is None:
            env.pop(k, None)
        else:
            env[k] = v.replace("$ROOT", root).replace("$STUB", STUB).replace("$BIN", BIN).replace(
                "$CARGO", ti["cargo"]).replace("$LOG", logdir)
    if extra_env:
        env.update(extra_env)
    plan = inv.get("plan") or []
    if plan:
        with open(os.path.join(logdir, "plan"), "w") as f:
            f.write("\n".join(plan) + "\n")
    if inv.get("stubplan"):
        with open(os.path.join(logdir, "stub-plan"), "w") as f:
            f.write("\n".join(inv["stubplan"]) + "\n")
    cwd = os.path.normpath(os.path.join(root, inv.get("cwd", ".")))
    argv = [a.replace("$ROOT", root) for a in inv.get("argv", [])]
    stdin = inv.get("stdin")
    stdin_b = file_bytes(stdin) if stdin is not None else None
    res = Result()
    t0 = time.time()
    # The standard streams are regular files, not pipes: how many read()/write() calls a process needs on a
    # pipe depends on how fast the other end is (a real, uncontrolled source of nondeterminism under load);
    # on files every call transfers what was asked.  Partial transfers are injected by the interposer only.
    out_path = os.path.join(logdir, "stdout")
    err_path = os.path.join(logdir, "stderr")
    in_path = os.path.join(logdir, "stdin")
    if stdin_b is not None:
        with open(in_path, "wb") as f:
            f.write(stdin_b)
    fin = open(in_path, "rb") if stdin_b is not None else subprocess.DEVNULL
    fout = open(out_path, "wb")
    ferr = open(err_path, "wb")
    try:
        p = subprocess.Popen(
            [exe] + argv,
            cwd=cwd,
            env=env,
            stdin=fin,
            stdout=fout,
            stderr=ferr,
            start_new_session=True,
        )
    except OSError as e:
        raise HarnessError("cannot start %s in %s: %s" % (exe, cwd, e))
    finally:
        if stdin_b is not None:
            fin.close()
        fout.close()
        ferr.close()
    try:
        p.wait(timeout=PROC_TIMEOUT)
    except subprocess.TimeoutExpired:
        try:
            os.killpg(p.pid, signal.SIGKILL)
        except OSError:
            pass
        p.wait()
        res.timed_out = True
    with open(out_path, "rb") as f:
        out = f.read()
    with open(err_path, "rb") as f:
        err = f.read()
    res.wall = time.time() - t0
    res.stdout, res.stderr = out, err
    rc = p.returncode
    if rc < 0:
        res.signal = -rc
    else:
        res.exit = rc
    i = 0
    while True:
        lp = os.path.join(logdir, "p%d.log" % i)
        if not os.path.exists(lp):
            break
        with open(lp, errors="replace") as f:
            text = f.read()
        res.procs.append(parse_log(text, i))
        m = re.search(r"# end ops=(\d+) clock=(\d+) rand=(\d+)", text)
        if m:
            for k, v in zip(("ops", "clock", "rand"), m.groups()):
                res.stats[k] = res.stats.get(k, 0) + int(v)
        i += 1
    res.stubcalls = []
    sc = os.path.join(logdir, "stub-calls.jsonl")
    if os.path.exists(sc):
        with open(sc, errors="surrogateescape") as f:  # (a recorded argv[0] need not be UTF-8)
            for line in f:
                try:
                    res.stubcalls.append(json.loads(line))
                except ValueError:
                    raise HarnessError("bad stub record: " + line)
    if not res.procs and not os.path.isabs(tool):
        raise HarnessError("shim not loaded for %s (stderr: %r)" % (tool, err[:300]))
    shutil.rmtree(logdir, ignore_errors=True)
    return res


def legal_perturbation(seed):
    """fault rules that are legal behaviour of the OS and must never change any outcome: partial reads and
    writes on every file and stream, and interrupted calls.  Drawn from `seed` (0 = none)."""
    k = seed % 5
    if k == 0 or seed == 0:
        return []
    sizes = [["7,1,30,4096"], ["1"], ["64,3"], ["4095,2"]][(seed // 5) % 4]
    plan = []
    if k in (1, 3):
        plan.append("* read 0 * short " + sizes[0])
    if k in (2, 3):
        plan.append("* write 0 * short " + sizes[0])
    if k == 4:
        plan.append("* read %d * eintr %d" % (1 + (seed // 7) % 3, 1 + (seed // 11) % 2))
        plan.append("* write %d * eintr 1" % (1 + (seed // 13) % 4))
    return plan


def text_of(b):
    return b.decode("utf-8", errors="replace")


def abnormal(res, ignore_injected=False):
    """C16-style monitor over one finished process: returns a site string or None.

    Abnormal = the process did not end with exit status 0 or 1 (a panic that escaped: 101, an abort or
    any other signal, a stack overflow).  A panic message on stderr of a process that nevertheless ends
    with 0 or 1 is a *contained* panic (parser / macro / snippet boundary), which the property allows;
    use contained_panic() to count those."""
    err = text_of(res.stderr)
    if res.timed_out:
        return None
    if res.signal is None and res.exit in (0, 1):
        return None
    if ignore_injected and "rustfmt_verif: injected panic" in err:
        err = re.sub(r"thread '[^']*' panicked at src/verif_hooks\.rs[^\n]*\n[^\n]*injected panic[^\n]*\n", "", err)
    site = panic_site(err)
    if site:
        return site
    if "stack overflow" in err:
        return "stack-overflow"
    if res.signal:
        return "signal:%d" % res.signal
    return "exit:%s" % res.exit


def panic_site(err):
    m = re.search(r"panicked at ([^\n]*?):(\d+):(\d+):\n?([^\n]*)", err)
    if not m:
        return None
    f = m.group(1)
    f = re.sub(r"^.*/registry/src/[^/]+/", "", f)
    f = re.sub(r"^/rustc/[0-9a-f]+/", "rustc/", f)
    return "panic@%s:%s" % (f, m.group(2))


def contained_panic(res):
    if res.timed_out or res.signal is not None or res.exit not in (0, 1):
        return None
    err = text_of(res.stderr)
    if "rustfmt_verif: injected panic" in err:
        return None
    return panic_site(err)
