"""Self-contained xoshiro256** so that results do not depend on the Python version."""
M = (1 << 64) - 1


def _rotl(x, k):
    return ((x << k) & M) | (x >> (64 - k))


def splitmix(x):
    x = (x + 0x9E3779B97F4A7C15) & M
    z = x
    z = ((z ^ (z >> 30)) * 0xBF58476D1CE4E5B9) & M
    z = ((z ^ (z >> 27)) * 0x94D049BB133111EB) & M
    return x, z ^ (z >> 31)


def mix(*parts):
    """Derive a 64-bit seed from integers / strings, order-sensitive."""
    h = 0x243F6A8885A308D3
    for p in parts:
        if isinstance(p, str):
            v = 0xCBF29CE484222325
            for b in p.encode():
                v = ((v ^ b) * 0x100000001B3) & M
            p = v
        h, z = splitmix((h ^ (p & M)) & M)
        h = z
    return h


class Rng:
    def __init__(self, seed):
        self.seed = seed & M
        x = self.seed
        s = []
        for _ in range(4):
            x, z = splitmix(x)
            s.append(z)
        self.s = s

    def u64(self):
        s = self.s
        r = (_rotl((s[1] * 5) & M, 7) * 9) & M
        t = (s[1] << 17) & M
        s[2] ^= s[0]
        s[3] ^= s[1]
        s[1] ^= s[2]
        s[0] ^= s[3]
        s[2] ^= t
        s[3] = _rotl(s[3], 45)
        return r

    def below(self, n):
        assert n > 0
        return self.u64() % n

    def range(self, lo, hi):
        """inclusive"""
        return lo + self.below(hi - lo + 1)

    def chance(self, num, den=100):
        return self.below(den) < num

    def choice(self, seq):
        return seq[self.below(len(seq))]

    def shuffle(self, seq):
        seq = list(seq)
        for i in range(len(seq) - 1, 0, -1):
            j = self.below(i + 1)
            seq[i], seq[j] = seq[j], seq[i]
        return seq

    def sample(self, seq, k):
        return self.shuffle(seq)[:k]

    def subset(self, seq, num=50, den=100):
        return [x for x in seq if self.chance(num, den)]

    def fork(self, *tag):
        return Rng(mix(self.u64(), *tag))
