"""C20 -- the --backup write protocol never loses the original.

Fault enumeration: for every sampled world, all crash points (after every
mutating file-system operation, before the first, inside every write) and all
single failing operations of `rustfmt --backup` are enumerated.
"""
import copy
import os

from .. import core, gen_rust, gen_tree
from ..engine import Verdict

ID = "C20"
LEVEL = "fault_enumeration"
RULE = ("world = crate of 1-5 deliberately unformatted files (some pre-formatted, stem collisions, odd "
        "extensions, leftovers of an earlier run, optional format->edit->format history) drawn from the seed; "
        "per world: recon run of `rustfmt --backup`, then one simulated process per crash point (before first / "
        "after every mutating op / 4 positions inside every write) and per (op, errno|torn|eintr) single failure. "
        "distinct_nontrivial = distinct (op,path,result-class) trace signatures among runs in which a fault fired "
        "or the rewrite completed.")
ASSUMPTIONS = [
    "crash model is operation-granular (a completed libc call is durable, an uncompleted one left no trace; a torn write is a prefix of one write) -- as the property states it; no power-loss reordering",
    "the reference formatted text of a file is what the plain files emitter writes for it in a fault-free run of the same binary",
    "rustfmt is single-threaded (one process, one event sequence)",
]
COMPONENTS = {
    "rustfmt": "real (rebuilt from /repo working tree, dev profile, --cfg rustfmt_verif)",
    "file system": "real tmpfs behind the simfs interposer (every call logged; faults/crashes injected)",
    "hash seed": "simulated (getrandom owned by simfs)",
    "clock": "simulated (virtual, +1ms per read)",
}

OPEN_ERRNOS = [13, 28, 24, 5]  # EACCES ENOSPC EMFILE EIO
WRITE_ERRNOS = [28, 5, 122]  # ENOSPC EIO EDQUOT
RENAME_ERRNOS = [13, 18, 16, 28, 5, 30]  # EACCES EXDEV EBUSY ENOSPC EIO EROFS


def generate(rng, tier):
    feats = {"modrs", "path", "pathext"}
    if rng.chance(25):
        feats.add("samestem")
    if rng.chance(30):
        feats.add("inline")
    use_corpus = rng.chance(25)

    def body(r):
        if use_corpus and r.chance(50):
            return gen_rust.corpus_text(r, 3000)[1]
        return gen_rust.unformatted(r, 1 + r.below(3))

    t = gen_tree.gen_crate(rng, base="c", max_files=5, feats=feats, body=body)
    files = dict(t.files)
    srcs = list(t.reach)
    respelled = []
    leaves = [f for f in srcs[1:] if not any(d[0] == f for d in t.decls)]
    if rng.chance(8) and leaves:
        # the same (leaf) file declared a second time under another spelling (F6)
        leaf = rng.choice(leaves)
        rootdir = os.path.dirname(t.root)
        relp = os.path.relpath(leaf, rootdir)
        files[t.root] = '#[path = "./../%s/%s"]\nmod respelled_twin;\n' % (os.path.basename(rootdir), relp) + files[t.root]
        respelled = [leaf]
    # a module file that is a symbolic link to a file shared from another directory
    linked = {}
    if rng.chance(12) and leaves:
        lf = rng.choice([f for f in leaves if f not in respelled] or leaves)
        if lf not in respelled:
            tgt = "shared/" + os.path.basename(lf).replace(".", "_real.", 1)
            files[tgt] = files[lf]
            files[lf] = {"symlink": os.path.relpath(tgt, os.path.dirname(lf))}
            linked[lf] = tgt
    # a source file with a second hard link: elsewhere, or -- a cheap manual backup -- as its own .bk sibling
    if rng.chance(10) and leaves and not linked:
        hf = rng.choice([f for f in leaves if f not in respelled] or leaves)
        if hf not in respelled:
            where = rng.choice(["elsewhere", "bk"])
            lp = ("links/" + os.path.basename(hf)) if where == "elsewhere" else _stem(hf) + ".bk"
            if lp not in files:
                files[lp] = {"hardlink": hf}
    # line-ending / BOM variants: the original *bytes* must survive, not a normalised text
    for f in srcs:
        if f in linked:
            continue
        k = rng.below(100)
        if k < 12:
            files[f] = files[f].replace("\n", "\r\n")
        elif k < 20:
            files[f] = "\ufeff" + files[f]
        elif k < 25:
            files[f] = "\ufeff" + files[f].replace("\n", "\r\n")
        elif k < 30:
            files[f] = files[f].rstrip("\n")
    pre = [f for f in srcs if rng.chance(25) and f not in linked]
    leftovers = {}
    if rng.chance(30):
        for f in rng.sample(srcs, 1 + rng.below(len(srcs))):
            stem = os.path.splitext(f)[0]
            which = rng.choice(["bk", "tmp", "both"])
            if which in ("bk", "both"):
                leftovers[stem + ".bk"] = "// stale backup\n"
            if which in ("tmp", "both"):
                leftovers[stem + ".tmp"] = "// stale tmp\n"
    files.update(leftovers)
    history = rng.chance(20) and not linked and not any(isinstance(x, dict) and "hardlink" in x for x in files.values())
    cwd, root_arg = rng.choice([(".", t.root), (t.base, os.path.relpath(t.root, t.base)), (".", "$ROOT/" + t.root)])
    # a second input on the same command line that reaches one of the files again: a twin root next to the root
    # (src/main.rs + src/lib.rs) declaring the same module file, or the root simply named twice
    extra_roots = []
    k = rng.below(100)
    if k < 14:
        rd = os.path.dirname(t.root)
        sh, tw = os.path.join(rd, "p_twsh.rs"), os.path.join(rd, "twin_root.rs")
        if sh not in files and tw not in files:
            files[sh] = body(rng)
            files[tw] = "mod p_twsh;\n" + gen_rust.unformatted(rng, 1)
            rt = files[t.root]
            files[t.root] = ("\ufeff" if rt.startswith("\ufeff") else "") + "mod p_twsh;\n" + rt.lstrip("\ufeff")
            srcs += [sh, tw]
            extra_roots = [os.path.join(os.path.dirname(root_arg), "twin_root.rs")]
    elif k < 18:
        extra_roots = [root_arg]
    elif k < 26:
        # a module file named as an input of its own after its root: as a module it is formatted under the root's
        # crate-level attributes, as an input without them -- the second pass sees the first one's output
        rd = os.path.dirname(t.root)
        mv = os.path.join(rd, "p_mv.rs")
        if mv not in files:
            files[mv] = "fn  mv( ){let v=vec![ 1,2 ];}\n"
            rt = files[t.root]
            bom = "\ufeff" if rt.startswith("\ufeff") else ""
            files[t.root] = bom + "#![rustfmt::skip::macros(vec)]\nmod p_mv;\n" + rt.lstrip("\ufeff")
            srcs += [mv]
            extra_roots = [os.path.join(os.path.dirname(root_arg), "p_mv.rs")]
    elif k < 32:
        # a text that needs two passes to settle (leading blank line + indented item), in a run that visits it twice
        f0 = rng.choice(srcs)
        if isinstance(files[f0], str) and not files[f0].startswith("\ufeff") and f0 not in linked:
            files[f0] = "\n fn  lead( ){ }\n" + files[f0]
            extra_roots = [root_arg]
    elif k < 36:
        # a module file whose own name ends in the extension the protocol uses for its scratch or backup file (F16's
        # naming scheme seen from a single file)
        rd = os.path.dirname(t.root)
        own = os.path.join(rd, rng.choice(["p_own.tmp", "p_own.bk"]))
        if own not in files:
            files[own] = body(rng)
            rt = files[t.root]
            bom = "\ufeff" if rt.startswith("\ufeff") else ""
            files[t.root] = bom + '#[path = "%s"]\nmod p_own;\n' % os.path.basename(own) + rt.lstrip("\ufeff")
            srcs += [own]
    elif k < 42:
        # a module file that is a symbolic link to another module file of the same crate: two directory entries, one
        # inode; both are visited (whichever comes first)
        rd = os.path.dirname(t.root)
        a, b = rng.choice([("p_aalias.rs", "p_breal.rs"), ("p_zalias.rs", "p_breal.rs")])
        la, lb = os.path.join(rd, a), os.path.join(rd, b)
        if la not in files and lb not in files:
            files[lb] = body(rng)
            files[la] = {"symlink": b}
            rt = files[t.root]
            bom = "\ufeff" if rt.startswith("\ufeff") else ""
            files[t.root] = bom + '#[path = "%s"]\nmod p_alias;\n#[path = "%s"]\nmod p_real;\n' % (a, b) + rt.lstrip("\ufeff")
            srcs += [la, lb]
            linked[la] = lb
    twin_first = bool(extra_roots) and k < 18 and rng.chance(40)
    extra_args = rng.choice([[], [], ["-q"], ["--config", "max_width=%d" % rng.choice([60, 80, 100])]])
    return {
        "world": {"files": files},
        "tree": t.to_json(),
        "sources": srcs,
        "preformatted": pre,
        "history": history,
        "cwd": cwd,
        "root_arg": root_arg,
        "extra_args": extra_args,
        "hashseed": rng.below(1 << 32), "respelled": respelled, "linked": linked, "tier": tier,
        "extra_roots": extra_roots, "twin_first": twin_first,
    }


def _inv(case, backup, plan=None):
    roots = [case["root_arg"]] + list(case.get("extra_roots") or [])
    if case.get("twin_first"):
        roots.reverse()
    argv = (["--backup"] if backup else []) + list(case["extra_args"]) + roots
    return {"tool": "rustfmt", "argv": argv, "cwd": case["cwd"], "hashseed": case["hashseed"], "plan": plan or []}


def _stem(p):
    # std::path::Path::with_extension semantics: replace the last extension of the file name
    d, b = os.path.split(p)
    if "." in b[1:]:
        b = b[: b.rindex(".")]
    return os.path.join(d, b)


def execute(case):
    v = Verdict()
    srcs = case["sources"]
    with core.Scratch() as sc:
        world = copy.deepcopy(case["world"])
        # -- reference formatted text (plain files emitter, fault-free, fresh world)
        sc.fresh_world(world)
        ref = core.run_inv(sc, _inv(case, backup=False))
        v.account(ref, nontrivial=False)
        if ref.exit != 0 or ref.signal:
            # input that rustfmt itself rejects: nothing to enumerate (not this property's business)
            v.probe("reference-run-failed")
            return v
        fmt = {f: core.read_rel(sc.root, f) for f in srcs}
        # -- apply "already formatted" substitution, optional history
        for f in case["preformatted"]:
            world["files"][f] = {"b64": _b64(fmt[f])}
        if case["history"]:
            sc.fresh_world(world)
            h = core.run_inv(sc, _inv(case, backup=True))
            v.account(h, nontrivial=False)
            if h.exit != 0:
                v.probe("history-first-run-failed")
                return v
            # the user edits every source after the first run, then formats again
            snap_files = {}
            for rel, st in core.snapshot(sc.root).items():
                if st[0] not in ("dir",) and not st[0].startswith("link:"):
                    snap_files[rel] = {"b64": _b64(core.read_rel(sc.root, rel))}
            world = {"files": snap_files}
            for f in srcs:
                world["files"][f] = {"b64": _b64(core.read_rel(sc.root, f) + b"fn  edited_by_user( ){ }\n")}
            sc.fresh_world(world)
            ref2 = core.run_inv(sc, _inv(case, backup=False))
            v.account(ref2, nontrivial=False)
            if ref2.exit != 0:
                return v
            fmt = {f: core.read_rel(sc.root, f) for f in srcs}
            v.probe("history:format-edit-format")
        linked = case.get("linked") or {}
        orig = {f: core.file_bytes(world["files"][linked.get(f, f)]) for f in srcs}
        # with several inputs a file can be rewritten by an earlier input and again by a later one: the text after the
        # first of them is a complete formatted text too
        fmt_alt = {}
        if case.get("extra_roots"):
            c1 = dict(case, extra_roots=[], twin_first=False)
            if case.get("twin_first"):
                c1["root_arg"] = case["extra_roots"][0]
            sc.fresh_world(world)
            r1 = core.run_inv(sc, _inv(c1, backup=False))
            v.account(r1, nontrivial=False)
            if r1.exit == 0:
                fmt_alt = {f: core.read_rel(sc.root, f) for f in srcs}
        if linked:
            v.probe("symlinked-module-file")
        R = [f for f in srcs if orig[f] != fmt[f]]
        allowed = set()
        for f in R:
            allowed.update((f, _stem(f) + ".bk", _stem(f) + ".tmp"))
        collide = _collisions(R)
        if collide:
            v.probe("stem-collision")
        respelled = set(case.get("respelled") or [])
        ownname = {f for f in R if f.endswith((".tmp", ".bk"))}
        if ownname:
            v.probe("own-name-is-scratch-name")
        if respelled:
            v.probe("file-declared-twice-respelled")

        def check(tag, res, snap0, success_expected, plan):
            """invariants over the directory left behind"""
            snap1 = core.snapshot(sc.root)
            diff = core.snap_diff(snap0, snap1)
            det = "%s plan=%s status=%s" % (tag, plan, res.status())
            for f in srcs:
                cur = core.read_rel(sc.root, f)
                bk = core.read_rel(sc.root, _stem(f) + ".bk")
                suffix = "|stem-collision" if f in collide else ("|respelled-twice" + ("|unresolvable-directory" if tag == "realpath-errno" else "")) if f in respelled else "|own-name-is-scratch-name" if f in ownname else ""
                if f in linked and linked[f] in srcs:
                    # a link to another module file of the crate: its .bk is the moved link, which still points to the
                    # (rewritten) target; the bytes are safe if the target's own backup holds them
                    tbk = core.read_rel(sc.root, _stem(linked[f]) + ".bk")
                    if orig[f] in (cur, bk, tbk):
                        continue
                if cur != orig[f] and bk != orig[f]:
                    v.add("C20:original-lost" + suffix, "%s: neither %s nor its .bk holds the original; %s" % (tag, f, det), file=f)
                if cur is not None and cur not in (orig[f], fmt[f], fmt_alt.get(f, fmt[f])):
                    v.add("C20:partial-or-foreign-content" + suffix, "%s: %s holds neither original nor formatted text; %s" % (tag, f, det), file=f)
                if cur is None and bk != orig[f]:
                    pass  # covered by original-lost
            for p in diff:
                if os.path.normpath(p) not in allowed:
                    v.add("C20:foreign-path-touched", "%s: %s changed but is not F/F.bk/F.tmp of a rewritten file; %s" % (tag, p, det), path=p)
            if success_expected == "if-exit-0" and res.exit != 0:
                v.probe("realpath-error-fails-the-run")
                return
            if success_expected:
                if res.exit != 0:
                    v.add("C20:unexpected-failure" + ("|own-name-is-scratch-name" if ownname else ""), "%s: exit %s, stderr=%r" % (det, res.status(), core.text_of(res.stderr)[:200]))
                    return  # what the files look like after a failure is judged by the invariants above
                for f in R:
                    suffix = "|stem-collision" if f in collide else ("|respelled-twice" + ("|unresolvable-directory" if tag == "realpath-errno" else "")) if f in respelled else "|own-name-is-scratch-name" if f in ownname else ""
                    if core.read_rel(sc.root, f) != fmt[f]:
                        v.add("C20:success-file-not-formatted" + suffix, "%s: %s" % (det, f), file=f)
                    if core.read_rel(sc.root, _stem(f) + ".bk") != orig[f] and not (
                            f in linked and linked[f] in srcs and core.read_rel(sc.root, _stem(linked[f]) + ".bk") == orig[f]):
                        v.add("C20:success-bk-not-original" + suffix, "%s: %s.bk" % (det, _stem(f)), file=f)
                    if core.read_rel(sc.root, _stem(f) + ".tmp") is not None and (_stem(f) + ".tmp") not in world["files"]:
                        v.add("C20:success-tmp-left", "%s: %s.tmp" % (det, _stem(f)), file=f)
                for f in srcs:
                    if f not in R and (_stem(f) + ".bk") not in world["files"] and not any(_stem(g) == _stem(f) for g in R):
                        if core.read_rel(sc.root, _stem(f) + ".bk") is not None:
                            v.add("C20:bk-for-unchanged-file", "%s: %s" % (det, f), file=f)

        # -- recon
        sc.fresh_world(world)
        snap0 = core.snapshot(sc.root)
        recon = core.run_inv(sc, _inv(case, backup=True))
        v.account(recon)
        check("recon", recon, snap0, True, [])
        muts = [e for e in recon.events if (e.mut or (e.op == "write" and e.path and not e.path.startswith("@")))
                and not e.fault and e.op != "ftruncate"]
        v.info["mutating_ops"] = len(muts)
        if v.violations and not all("|" in x.cls for x in v.violations):
            v.sample = _sample(case, muts, 0)
            return v
        if not muts:
            v.probe("nothing-to-rewrite")
            return v
        # -- enumerate
        plans = [("crash_before", ["* mut 1 * crash_before"], False)]
        for k, e in enumerate(muts, 1):
            plans.append(("crash_after", ["* mut %d * crash_after" % k], False))
            if e.op == "write":
                n = e.n or 0
                mids = {0, 1, n // 2, max(0, n - 1)}
                if case.get("tier") == "thorough":
                    mids |= {2, n // 4, 3 * n // 4, max(0, n - 2), n} | set(range(0, min(n, 64), 7))
                for pos in sorted(mids):
                    plans.append(("crash_mid", ["* mut %d * crash_mid %d" % (k, pos)], False))
                for pos in sorted(p for p in {0, 1, n // 2} if p < n):
                    plans.append(("torn", ["* mut %d * torn %d 28" % (k, pos)], False))
                for en in WRITE_ERRNOS:
                    plans.append(("errno", ["* mut %d * errno %d" % (k, en)], False))
                plans.append(("eintr", ["* mut %d * eintr 2" % k], True))
                plans.append(("short", ["* write 0 %s short 1,3,7" % e.path], True))
            elif e.op == "open":
                for en in OPEN_ERRNOS:
                    plans.append(("errno", ["* mut %d * errno %d" % (k, en)], False))
            elif e.op == "rename":
                for en in RENAME_ERRNOS:
                    plans.append(("errno", ["* mut %d * errno %d" % (k, en)], False))
        # no directory can be resolved to its real path (EACCES on an ancestor, a removed working directory): the run may
        # fail, and when it does not, every rewritten file still has its own backup
        # (the configuration is named with --config-path: the per-directory look-up needs the real path of the directory)
        rdirs = sorted({os.path.normpath(os.path.dirname(f) or ".") for f in R})
        plans.append(("realpath-errno", ["* realpath 0 %s errno %d" % (d, [13, 2, 36][case["hashseed"] % 3]) for d in rdirs], "if-exit-0"))
        ncase = 0
        for kind, plan, success in plans:
            sc.fresh_world(world)
            inv = _inv(case, backup=True, plan=plan)
            if kind == "realpath-errno":
                with open(os.path.join(sc.root, "zz_empty.toml"), "w"):
                    pass
                inv["argv"] = ["--config-path", "$ROOT/zz_empty.toml"] + inv["argv"]
            snap0 = core.snapshot(sc.root)
            r = core.run_inv(sc, inv)
            v.planned(kind)
            fired = any(e.fault or e.op == "crash" for e in r.events) or any("SHORT" in e.raw for e in r.events)
            v.account(r, nontrivial=fired)
            if not fired:
                if kind == "short":
                    v.probe("short-write-not-applicable")  # a write of 0 or 1 bytes cannot be shortened
                    continue
                v.add("HARNESS:fault-did-not-fire", "plan %s did not fire (prefix not deterministic?)" % plan)
                continue
            v.fired(kind)
            if kind.startswith("crash"):
                if r.signal != 9:
                    v.add("HARNESS:crash-not-a-kill", "plan %s status %s" % (plan, r.status()))
            if kind in ("errno", "torn") and r.exit == 0:
                v.probe("io-error-but-exit-0")
            if _between_renames(r):
                v.probe("crash-between-renames")
            check(kind, r, snap0, success, plan)
            ncase += 1
        v.info["fault_cases"] = ncase
        v.sample = _sample(case, muts, ncase)
    return v


def _between_renames(r):
    evs = [e for e in r.events]
    if not evs or evs[-1].op != "crash":
        return False
    ren = [e for e in evs if e.op == "rename" and not e.fault and e.res == 0]
    return len(ren) % 2 == 1


def _collisions(R):
    out = set()
    by = {}
    for f in R:
        by.setdefault(_stem(f), []).append(f)
    for s, fs in by.items():
        if len(fs) > 1:
            out.update(fs)
    return out


def _b64(b):
    import base64

    return base64.b64encode(b).decode()


def _sample(case, muts, ncase):
    return {
        "files": sorted(case["world"]["files"]),
        "argv": ["--backup"] + case["extra_args"] + [case["root_arg"]],
        "cwd": case["cwd"],
        "recon_mutating_ops": [e.raw for e in muts][:12],
        "fault_cases_enumerated": ncase,
        "history": case["history"],
    }


def shrinks(case):
    """smaller cases: drop history, leftovers, preformatting; replace bodies by tiny ones; drop files"""
    if case["history"]:
        c = copy.deepcopy(case)
        c["history"] = False
        yield c
    if case["preformatted"]:
        c = copy.deepcopy(case)
        c["preformatted"] = []
        yield c
    if case["extra_args"]:
        c = copy.deepcopy(case)
        c["extra_args"] = []
        yield c
    extra = [f for f in case["world"]["files"] if f not in case["sources"]]
    for f in extra:
        c = copy.deepcopy(case)
        del c["world"]["files"][f]
        yield c
    # drop a leaf source file (one that declares no module and is declared once)
    decls = case["tree"]["decls"]
    for f in reversed(case["sources"][1:]):
        if any(d[0] == f for d in decls):
            continue
        mine = [d for d in decls if d[2] == f]
        if len(mine) != 1:
            continue
        parent, name, _ = mine[0]
        ptxt = core.file_bytes(case["world"]["files"][parent]).decode()
        lines = ptxt.split("\n")
        idx = [i for i, l in enumerate(lines) if l.strip().endswith("mod %s;" % name)]
        if len(idx) != 1 or ("{" in "".join(lines[max(0, idx[0] - 2):idx[0]])):
            continue
        i = idx[0]
        lo = i - 1 if i > 0 and lines[i - 1].startswith("#[path") else i
        c = copy.deepcopy(case)
        c["world"]["files"][parent] = "\n".join(lines[:lo] + lines[i + 1:])
        del c["world"]["files"][f]
        c["sources"] = [s for s in c["sources"] if s != f]
        c["preformatted"] = [s for s in c["preformatted"] if s != f]
        c["tree"]["decls"] = [d for d in decls if d[2] != f]
        yield c
    # shrink bodies
    for f in case["sources"]:
        txt = core.file_bytes(case["world"]["files"][f]).decode()
        lines = txt.split("\n")
        keep = [l for l in lines if l.startswith("#[path") or l.strip().endswith(";") and " mod " in (" " + l) or l.startswith("mod ") and l.rstrip().endswith("{") is False and l.rstrip().endswith(";")]
        small = "\n".join(keep + [gen_rust.tiny_unformatted("s")])
        if small != txt and "mod in_" not in txt and "cfg_" not in txt:
            c = copy.deepcopy(case)
            c["world"]["files"][f] = small
            yield c
