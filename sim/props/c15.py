"""C15 -- output is a function of source and configuration only.

A world of 1-5 inputs (small crates, some nested inside each other's directories
with their own configs, some unparsable, some already formatted); the same work
is done as one invocation per permutation, as single-file invocations, under
several hash seeds, working directories and environments, and on stdin.
"""
import copy
import itertools
import json
import os
import re

from .. import core, gen_config, gen_rust, gen_tree
from ..engine import Verdict
from .c06 import parse_stdout_sections

ID = "C15"
LEVEL = "exploration"
RULE = ("world = 1-5 inputs (crates of 1-3 files; sibling or nested directories; local rustfmt.toml at drawn levels incl. "
        "`ignore` lists with overlapping negations; some inputs unparsable, some already formatted, macro_rules / "
        "skip::macros constructs); script = every permutation (n<=3; 6 sampled for n=4,5) as one invocation in a drawn emit "
        "mode + the n single-input invocations + 3 extra hash seeds + 2 other working directories/spellings + a perturbed "
        "environment + stdin for single-file inputs. distinct_nontrivial = distinct (op,path,result) signatures of the "
        "multi-input runs.")
ASSUMPTIONS = [
    "per-file results are extracted from each emit mode's output by file name (normalised to world-relative paths)",
    "configuration-level `Warning:` lines are not part of a file's report (they are printed once per config load)",
    "RUSTFMT_LOG is a debugging knob and is not among the environment variables that must not matter",
]
COMPONENTS = {
    "rustfmt": "real (rebuilt from /repo working tree, dev profile, --cfg rustfmt_verif)",
    "library API session": "real rustfmt library driven by sim/session_driver (one Session, override_config + format per input), under the same interposer",
    "file system / env / cwd": "real tmpfs behind simfs; environment fully specified per run",
    "hash seed": "simulated (4 seeds per world)", "clock": "simulated",
}
MODES = [("files", []), ("stdout", ["--emit", "stdout"]), ("check", ["--check"]), ("json", ["--emit", "json"]),
         ("checkstyle", ["--emit", "checkstyle"])]
MACRO = '''macro_rules! mk{($a:ident,$ab:expr,$abc:ty)=>{fn $a()->$abc{let v=$ab;v}};($x:expr)=>{$x+1};}
'''
ASYNC18 = "async fn  af( ){ }\nfn  uses_dyn(x:&dyn Fn()){ }\n"
ASYNC15 = "fn  old( ){let async=1;let r#try=2;}\n"
LAZYBAD = ("fn  before( ){ }\nlazy_static! {\n    static ref TABLE: Vec<u32> = {\n        let mut v = Vec::new();\n        v.push(1)\n"
           "        v\n    };\n}\n")
OVERLONG = "fn  over( ){ let %s = 1; }\n" % ("x" * 130)
# a cfg_if! body the module resolver parses itself (for a path, never for standard input), holding something the parser
# recovers from under the default edition; what follows it must be formatted as if the resolver had not looked
CFGERR = "cfg_if::cfg_if! { if #[cfg(unix)] { async fn in_cfg() {} } }\nfn  after_cfg( ){ assert!(1+1==2); assert!(2+2==4); }\n"
# a transcriber in which a metavariable is glued to an identifier, next to another metavariable whose placeholder spans
# the junction: putting the names back must not depend on the order in which a hash map yields them
MACGLUE = "macro_rules! glue {\n    ($ab:ident, $za:expr) => {\n        let xz$ab   =   $za;\n    };\n    ($az:ident, $bc:ident) => {\n        $az.pizza$bc  ( );\n    };\n}\n"
MACCALL = "fn  mc( ){foo!( a+1 ,b*2 );let v=bar![1+1 ,2];}\n"
SKIPMAC = '''#![rustfmt::skip::macros(keep,keep2)]
fn  uses( ){keep!( a ,b );keep2!(1 ,  2);other!( a ,b );}
'''


def generate(rng, tier):
    n = rng.choice([1, 2, 2, 3, 3, 3, 4, 5])
    files = {}
    inputs = []
    dirs = []
    for i in range(n):
        if dirs and rng.chance(45):
            d = os.path.join(rng.choice(dirs), "n%d" % i)
        else:
            d = "d%d" % i
        dirs.append(d)
        extra = rng.choice(["", "", "", MACRO, SKIPMAC, ASYNC18, ASYNC18, ASYNC15, "perfile", "perfile", "perfile", "warn", "warn", CFGERR, CFGERR, MACGLUE, MACGLUE])

        def body(r, extra=extra):
            if extra == "perfile":
                # different constructs in different files of one tree: state left behind by one file must not
                # reach the next one
                k = r.below(6)
                if k < 2:
                    return LAZYBAD  # (no other macro call may follow it in the file)
                return [MACCALL, MACCALL, MACRO, ""][k - 2] + (gen_rust.unformatted(r, 1 + r.below(2)) if r.chance(50) else "")
            if extra == "warn":
                # several files of one tree each earn a warning (a line that cannot be made to fit)
                return OVERLONG + gen_rust.unformatted(r, 1)
            return extra + gen_rust.unformatted(r, 1 + r.below(3))

        t = gen_tree.gen_crate(rng, base=d, root_name="r%d.rs" % i, max_files=rng.choice([1, 1, 2, 3]) if extra not in ("perfile", "warn") else rng.choice([3, 4]),
                               feats={"modrs", "path"}, suffix=str(i), body=body)
        files.update(t.files)
        kind = rng.choice(["unformatted"] * 5 + ["formatted"] * 2 + ["broken"] * 2)
        if kind == "broken":
            victim = rng.choice(t.reach)
            files[victim] = files[victim] + rng.choice(["fn broken( {\n", "fn x() { let = ; }\n", "fn r() { let _ = 0b12; }\n"])
        inputs.append({"root": t.root, "files": list(t.reach), "kind": kind, "dir": d, "rootattrs": extra == SKIPMAC, "perfile": extra == "perfile"})
        if extra == "warn":
            files[os.path.join(d, "rustfmt.toml")] = "unstable_features = true\nerror_on_line_overflow = true\n"
        elif rng.chance(45):
            opts = gen_config.draw_opts(rng, rng.range(1, 3), allow_alias=False,
                                        keys=["tab_spaces", "max_width", "hard_tabs", "brace_style", "fn_params_layout",
                                              "newline_style", "reorder_imports", "imports_granularity", "style_edition",
                                              "edition", "edition",
                                              "trailing_comma", "control_brace_style", "use_small_heuristics"])
            txt = gen_config.render(opts)
            mods = [f for f in t.reach[1:] if os.path.basename(f) != "mod.rs"]
            if mods and rng.chance(40):
                g = os.path.basename(rng.choice(mods))
                pats = rng.choice([[g], ["*%s" % g[-6:], "!" + g], ["!" + g, "*%s" % g[-6:]], [g, "nothing_*.rs"]])
                txt += "ignore = [%s]\n" % ", ".join('"%s"' % p for p in pats)
            files[os.path.join(d, rng.choice(["rustfmt.toml", ".rustfmt.toml"]))] = txt
    # an already formatted input stored with CRLF line endings under newline_style = "Unix": its only mismatch is the
    # line-ending style (reported through another channel than an ordinary diff)
    for inp in inputs:
        if inp["kind"] == "formatted" and rng.chance(40):
            inp["crlf"] = True
            d = inp["dir"]
            cfgs = [p for p in (os.path.join(d, ".rustfmt.toml"), os.path.join(d, "rustfmt.toml")) if p in files]
            for p in cfgs or [os.path.join(d, "rustfmt.toml")]:
                txt = "".join(l + "\n" for l in files.get(p, "").split("\n") if l and not l.startswith("newline_style"))
                files[p] = 'newline_style = "Unix"\n' + txt
    mode = rng.choice(MODES)
    # overlapping inputs: the same file named twice, or a leaf module file also named as an input of its own
    overlap = None
    if rng.chance(30):
        i = rng.below(len(inputs))
        leafs = [f for f in inputs[i]["files"][1:]]
        if leafs and rng.chance(65):
            f = rng.choice(leafs)
            overlap = {"root": f, "files": [f], "kind": inputs[i]["kind"], "dir": os.path.dirname(f), "overlap": True,
                       "leaf_of": i}
        else:
            overlap = dict(inputs[i]); overlap["overlap"] = True
        mode = rng.choice([MODES[1], MODES[2]])  # stdout / check: whole-output comparison
    return {"world": {"files": files}, "inputs": inputs, "mode": list(mode), "overlap": overlap, "tier": tier, "hashseed": rng.below(1 << 32),
            "permseed": rng.below(1 << 32), "cli": rng.choice([[], [], ["--config", "max_width=90"], ["--edition", "2021"]])}


def per_file(mode, res, root_abs, cwd_abs, known, disk_files):
    """normalise one run's result into {world-relative file: bytes/str}"""
    out = {}
    if mode == "files":
        for f in disk_files:
            out[f] = core.read_rel(root_abs, f)
        return out
    text = core.text_of(res.stdout)

    def rel(p):
        return os.path.relpath(os.path.normpath(os.path.join(cwd_abs, p)), root_abs)

    if mode == "stdout":
        return parse_stdout_sections(res.stdout, cwd_abs, root_abs, known)
    if mode == "check":
        cur = None
        for line in text.split("\n"):
            m = re.match(r"^Diff in (.+):(\d+):$", line) or re.match(r"^Incorrect newline style in (.+)()$", line)
            if m and rel(m.group(1)) in known:
                cur = rel(m.group(1))
                out.setdefault(cur, []).append("@%s" % m.group(2))
            elif cur is not None and line[:1] in (" ", "+", "-"):
                out[cur].append(line)
        return {k: "\n".join(v) for k, v in out.items()}
    if mode == "json":
        try:
            doc = json.loads(text)
        except ValueError:
            return {"<malformed>": text}
        for ent in doc:
            out[rel(ent["name"])] = json.dumps(ent["mismatches"], sort_keys=True)
        return out
    if mode == "checkstyle":
        for m in re.finditer(r'<file name="([^"]*)">(.*?)</file>', text, re.S):
            out[rel(m.group(1))] = m.group(2)
        return out
    raise core.HarnessError("mode " + mode)


def report_lines(res, root_abs):
    """multiset (sorted list) of per-file report lines on stderr, world root spelled as $W"""
    lines = []
    for l in core.text_of(res.stderr).replace(root_abs, "$W").split("\n"):
        if not l.strip() or l.startswith("Warning:"):
            continue
        lines.append(l)
    return sorted(lines)


def prepare(tier):
    core.build_driver()


class _Fake:
    pass


def run_api(sc, v, case, world, order, inputs, mode, known):
    """the same inputs through ONE library session (Session::override_config + Session::format per input)"""
    import json as _json
    sc.fresh_world(world)
    steps = []
    for k in order:
        ov = []
        cli = case["cli"]
        if cli[:1] == ["--config"]:
            ov = [p.split("=", 1) for p in cli[1].split(",")]
        elif cli[:1] == ["--edition"]:
            ov = [["edition", cli[1]]]
        steps.append({"file": os.path.join(sc.root, inputs[k]["root"]), "discover": True, "config_path": None, "overrides": ov})
    with open(os.path.join(sc.top, "script.json"), "w") as f:
        _json.dump({"emit": mode, "steps": steps}, f)
    res = core.run_inv(sc, {"tool": core.DRIVER, "argv": [os.path.join(sc.top, "script.json")], "hashseed": case["hashseed"]})
    v.account(res)
    out = core.text_of(res.stdout)
    lines = out.rstrip("\n").split("\n")
    try:
        doc = _json.loads(lines[-1])
    except ValueError:
        v.add("C15:api-session-abnormal", "session-driver status=%s stderr=%r" % (res.status(), core.text_of(res.stderr)[-300:]))
        return None
    fake = _Fake()
    fake.stdout = ("\n".join(lines[:-1]) + ("\n" if len(lines) > 1 else "") + doc["all"]).encode("utf-8")
    files_of = [f for k in order for f in inputs[k]["files"]]
    pf = per_file(mode, fake, sc.root, sc.root, known, files_of)
    fl = doc["flags"]
    # an Err returned by Session::format is what main.rs turns into an operational error
    failed = any(st.get("error") for st in doc["steps"])
    status = 1 if (failed or fl["operational"] or fl["parsing"] or (mode == "check" and (fl["diff"] or fl["check"]))) else 0
    return pf, status


def execute(case):
    v = Verdict()
    mode, margs = case["mode"]
    inputs = case["inputs"]
    n = len(inputs)
    with core.Scratch() as sc:
        world = copy.deepcopy(case["world"])
        # pre-step for "already formatted" inputs
        pre = [i for i in inputs if i["kind"] == "formatted"]
        if pre:
            sc.fresh_world(world)
            r0 = core.run_inv(sc, {"argv": [i["root"] for i in pre], "hashseed": case["hashseed"]})
            v.account(r0, nontrivial=False)
            for i in pre:
                for f in i["files"]:
                    b = core.read_rel(sc.root, f)
                    if b is not None and i.get("crlf"):
                        b = b.replace(b"\r\n", b"\n").replace(b"\n", b"\r\n")
                    if b is not None:
                        world["files"][f] = {"b64": _b64(b)}
        known = {f for i in inputs for f in i["files"]}
        allfiles = sorted(known)

        def run(idx, cwd=".", spelling="rel", seed=None, env=None, tag="", extra_plan=()):
            sc.fresh_world(world)
            args = []
            for k in idx:
                r = inputs[k]["root"]
                if spelling == "abslink":
                    # an absolute path to a symbolic link that lives in a directory with neither the configs nor
                    # the module files: only the real location may matter
                    os.makedirs(os.path.join(sc.root, "alias"), exist_ok=True)
                    lp = os.path.join(sc.root, "alias", "in%d_%s" % (k, os.path.basename(r)))
                    if not os.path.lexists(lp):
                        os.symlink(os.path.join("..", r), lp)
                    args.append("$ROOT/alias/" + os.path.basename(lp))
                    continue
                args.append("$ROOT/" + r if spelling == "abs" else os.path.relpath(r, cwd))
            inv = {"argv": ["--color", "never"] + list(margs) + list(case["cli"]) + args, "cwd": cwd,
                   "hashseed": case["hashseed"] if seed is None else seed, "env": env or {},
                   "plan": list(extra_plan) + (core.legal_perturbation(case["permseed"] // 3 + len(idx)) if len(idx) > 1 else [])}
            res = core.run_inv(sc, inv)
            v.account(res, nontrivial=len(idx) > 1)
            ab = core.abnormal(res)
            if ab:
                v.add("C15:abnormal|%s" % ab, "argv=%s status=%s stderr=%r" % (inv["argv"], res.status(), core.text_of(res.stderr)[:300]))
            files_of = [f for k in idx for f in inputs[k]["files"]]
            pf = per_file(mode, res, sc.root, os.path.join(sc.root, cwd), known, files_of)
            muts = [(e.op, os.path.normpath(e.path) if isinstance(e.path, str) else "", os.path.normpath(e.path2) if isinstance(e.path2, str) else "") for e in res.muts()]
            return res, pf, muts, inv["argv"]

        # (b) singles
        single = []
        for k in range(n):
            res, pf, muts, argv = run([k])
            single.append((res, pf, report_lines(res, sc.root)))
        want_status = max(s[0].exit if s[0].exit is not None else 101 for s in single)
        # (a) permutations
        perms = list(itertools.permutations(range(n)))
        if len(perms) > (6 if case.get("tier") != "thorough" else 24):
            from ..prng import Rng
            r = Rng(case["permseed"])
            perms = [tuple(range(n))] + [tuple(r.shuffle(list(range(n)))) for _ in range(5)]
        base_pf = None
        for perm in perms:
            if n == 1 and base_pf is not None:
                break
            res, pf, muts, argv = run(list(perm))
            if base_pf is None:
                base_pf, base_muts, base_res = pf, muts, res
            for k in perm:
                for f in inputs[k]["files"]:
                    a, b = pf.get(f), single[k][1].get(f)
                    if a != b:
                        v.add("C15:multi-vs-single|%s" % mode, "order %s: result for %s differs from its single-input run (input %s); argv=%s" % (list(perm), f, inputs[k]["root"], argv), file=f)
                        break
            if mode in ("stdout", "check") and not core.abnormal(res) and not any(core.abnormal(single[k][0]) for k in perm):
                want_out = b"".join(single[k][0].stdout for k in perm)
                if res.stdout != want_out and sorted(res.stdout.split(b"\n")) == sorted(want_out.split(b"\n")):
                    v.add("C15:output-order|%s" % mode, "order %s: standard output has the lines of the single-input runs but not in command-line order; argv=%s" % (list(perm), argv))
            if res.exit != want_status and not core.abnormal(res):
                v.add("C15:exit-status-not-max", "order %s: exit %s, single statuses %s; argv=%s" % (list(perm), res.status(), [s[0].status() for s in single], argv))
            want_lines = sorted(l for s in single for l in s[2])
            got_lines = report_lines(res, sc.root)
            if got_lines != want_lines:
                missing = [l for l in want_lines if l not in got_lines][:2]
                extra = [l for l in got_lines if l not in want_lines][:2]
                v.add("C15:reports-differ", "order %s: stderr report lines are not the union of the single runs' (missing %r, extra %r); argv=%s" % (list(perm), missing, extra, argv))
        # (a') the same orders through one library API session
        if os.path.exists(core.DRIVER):
            for perm in perms[:2]:
                r = run_api(sc, v, case, world, list(perm), inputs, mode, known)
                if r is None:
                    continue
                pf, status = r
                for k in perm:
                    for f in inputs[k]["files"]:
                        if pf.get(f) != single[k][1].get(f):
                            v.add("C15:api-session-vs-single|%s" % mode, "API session, order %s: result for %s differs from its single-input command-line run" % (list(perm), f), file=f)
                            break
                if status != want_status:
                    v.add("C15:api-session-status", "API session, order %s: status %d, single statuses %s" % (list(perm), status, [s[0].status() for s in single]))
                v.probe("api-session")
        # (e) an I/O error while one input is emitted must not change what happens to the inputs after it
        if mode == "files" and n >= 2:
            perm = list(perms[0])
            j = perm[case["permseed"] % (n - 1)]  # never the last one: something must come after it
            victim = inputs[j]
            if victim["kind"] == "unformatted":
                sc.fresh_world(world)
                args = [inputs[k]["root"] for k in perm]
                en = [28, 13, 5, 30][case["permseed"] % 4]
                inv = {"argv": ["--color", "never"] + list(margs) + list(case["cli"]) + args, "hashseed": case["hashseed"],
                       "plan": ["* openw 1 %s errno %d" % (os.path.normpath(victim["root"]), en)]}
                res = core.run_inv(sc, inv)
                v.planned("errno")
                if any(e.fault for e in res.events):
                    v.fired("errno")
                    v.account(res)
                    files_of = [f for k in perm for f in inputs[k]["files"]]
                    pf = per_file(mode, res, sc.root, sc.root, known, files_of)
                    for k in perm:
                        if k == j:
                            continue
                        for f in inputs[k]["files"]:
                            if pf.get(f) != single[k][1].get(f):
                                when = "after" if perm.index(k) > perm.index(j) else "before"
                                v.add("C15:io-error-on-one-input-affects-another|%s" % when,
                                      "write of %s failed (errno %d); %s, named %s it, differs from its single-input result; argv=%s" % (victim["root"], en, f, when, inv["argv"]), file=f)
                                break
                    if res.exit != 1 and not core.abnormal(res):
                        v.add("C15:io-error-exit-status", "write of %s failed but exit %s" % (victim["root"], res.status()))
                    ab = core.abnormal(res)
                    if ab:
                        v.add("C15:abnormal|%s" % ab, "under an injected write error: status=%s" % res.status())
                    v.probe("io-error-on-earlier-input")
        # (f) overlapping inputs: every input is processed on its own terms, however often a file was covered before
        ov = case.get("overlap")
        if ov and mode in ("stdout", "check"):
            sc.fresh_world(world)
            ro = core.run_inv(sc, {"argv": ["--color", "never"] + list(margs) + list(case["cli"]) + [ov["root"]], "hashseed": case["hashseed"]})
            v.account(ro, nontrivial=False)
            for pos in (0, n):
                idx = list(range(n))
                args = [inputs[k]["root"] for k in idx]
                args.insert(pos, ov["root"])
                sc.fresh_world(world)
                rm = core.run_inv(sc, {"argv": ["--color", "never"] + list(margs) + list(case["cli"]) + args, "hashseed": case["hashseed"]})
                v.account(rm)
                parts = [single[k][0].stdout for k in idx]
                parts.insert(pos, ro.stdout)
                if rm.stdout != b"".join(parts) and not core.abnormal(rm):
                    v.add("C15:overlapping-inputs|%s" % mode, "argv=%s: stdout is not the concatenation of the single-input outputs (%d vs %d bytes)" % (args, len(rm.stdout), len(b"".join(parts))))
                    break
            # a leaf module formatted as part of its crate and on its own (same configuration, no crate-level
            # attributes): the same bytes -- nothing a sibling file left behind may leak into it
            li = ov.get("leaf_of")
            if li is not None and mode == "stdout" and not inputs[li].get("rootattrs") and inputs[li]["kind"] != "broken" and ro.exit == 0:
                f = ov["root"]
                nested_cfg = any(p.endswith("rustfmt.toml") and os.path.dirname(p) != inputs[li]["dir"] and
                                 (os.path.dirname(f) + "/").startswith(os.path.dirname(p) + "/") for p in world["files"])
                alone = parse_stdout_sections(ro.stdout, sc.root, sc.root, known).get(f)
                inside = single[li][1].get(f)
                if not nested_cfg and alone is not None and inside is not None and alone != inside:
                    v.add("C15:file-in-tree-vs-alone", "%s is formatted differently as a module of %s and on its own" % (f, inputs[li]["root"]), file=f)
            v.probe("overlapping-inputs")
        # (g) every module file of a tree, formatted inside the tree and on its own (same configuration, no crate-level
        # attributes): the same bytes -- nothing an earlier file of the tree left behind may leak into a later one
        for li, inp in enumerate(inputs):
            if not inp.get("perfile") or inp["kind"] == "broken" or len(inp["files"]) < 2:
                continue
            sc.fresh_world(world)
            argv0 = ["--color", "never", "--emit", "stdout"] + list(case["cli"])
            rt = core.run_inv(sc, {"argv": argv0 + [inp["root"]], "hashseed": case["hashseed"]})
            v.account(rt)
            if rt.exit != 0:
                continue
            inside_all = parse_stdout_sections(rt.stdout, sc.root, sc.root, known)
            for f in inp["files"][1:]:
                nested_cfg = any(p.endswith("rustfmt.toml") and os.path.dirname(p) != inp["dir"] and
                                 (os.path.dirname(f) + "/").startswith(os.path.dirname(p) + "/") for p in world["files"])
                if nested_cfg or inside_all.get(f) is None:
                    continue
                sc.fresh_world(world)
                ra = core.run_inv(sc, {"argv": argv0 + [f], "hashseed": case["hashseed"]})
                v.account(ra, nontrivial=False)
                alone = parse_stdout_sections(ra.stdout, sc.root, sc.root, known).get(f)
                if ra.exit == 0 and alone is not None and alone != inside_all[f]:
                    v.add("C15:file-in-tree-vs-alone", "%s is formatted differently as a module of %s and on its own" % (f, inp["root"]), file=f)
                    break
            v.probe("each-file-alone")
        # (h) line ranges (the option format-diff drives): ranges for the first input plus ranges for files that are
        # not inputs of this invocation; results and diagnostics are the same under every hash seed
        if n >= 2 and case["permseed"] % 5 == 0 and mode in ("stdout", "check"):
            spans = [{"file": inputs[0]["root"], "range": [1, 3]}]
            for k in range(1, n):
                for f in inputs[k]["files"][:2]:
                    spans.append({"file": f, "range": [1 + k, 4 + k]})
            argvh = ["--color", "never"] + list(margs) + ["--unstable-features", "--file-lines", json.dumps(spans), inputs[0]["root"]]
            seen = None
            for k in (0, 1, 2, 3):
                sc.fresh_world(world)
                rh = core.run_inv(sc, {"argv": argvh, "hashseed": (case["hashseed"] + k * 7919) & 0xFFFFFFFF})
                v.account(rh, nontrivial=(k == 0))
                cur = (rh.stdout, rh.stderr, rh.exit)
                if seen is not None and cur != seen and b"rustc-ice" not in rh.stderr + seen[1]:
                    what = "stdout" if cur[0] != seen[0] else "diagnostics" if cur[1] != seen[1] else "status"
                    v.add("C15:hashseed-file-lines|%s" % what, "same --file-lines invocation, another hash seed: %s differ (%r vs %r); argv=%s" % (
                        what, core.text_of(cur[1])[:160], core.text_of(seen[1])[:160], argvh))
                    break
                seen = seen or cur
            v.probe("file-lines")
        # (c) hash seeds
        for k in (1, 2, 3):
            res, pf, muts, argv = run(list(perms[0]), seed=(case["hashseed"] * 31 + k * 104729) & 0xFFFFFFFF)
            if res.stderr != base_res.stderr and b"rustc-ice" not in res.stderr + base_res.stderr:
                v.add("C15:hashseed-reports", "same invocation, another hash seed: the diagnostics differ (%r vs %r); argv=%s" % (
                    core.text_of(res.stderr)[:200], core.text_of(base_res.stderr)[:200], argv))
            if pf != base_pf or res.exit != base_res.exit:
                diff = sorted(f for f in set(pf) | set(base_pf) if pf.get(f) != base_pf.get(f))
                ign = any("ignore" in core.file_bytes(s).decode("utf-8", "replace") for p, s in world["files"].items() if p.endswith("rustfmt.toml") and os.path.dirname(p) and any(d.startswith(os.path.dirname(p)) for d in diff))
                v.add("C15:hashseed-output" + ("|ignore-list" if ign else ""), "same invocation, another hash seed: results differ for %s (exit %s vs %s); argv=%s" % (diff[:3], res.status(), base_res.status(), argv))
                break
            if mode == "files" and muts != base_muts:
                v.add("C15:hashseed-mutation-order", "mutating operations differ under another hash seed")
                break
        # (c) other cwd / spelling / environment
        for cwd, sp in (("d0", "rel"), (".", "abs"), ("d0", "abslink")):
            res, pf, muts, argv = run(list(perms[0]), cwd=cwd, spelling=sp)
            if pf != base_pf or res.exit != base_res.exit:
                diff = sorted(f for f in set(pf) | set(base_pf) if pf.get(f) != base_pf.get(f))
                v.add("C15:cwd-or-spelling|%s" % ("abs" if sp == "abs" else "cwd"), "cwd=%s spelling=%s: results differ for %s (exit %s vs %s); argv=%s" % (cwd, sp, diff[:3], res.status(), base_res.status(), argv))
        if "--config-path" not in case["cli"]:
            # inputs named absolutely from a working directory that cannot be named (removed after the shell entered
            # it): nothing in the invocation is relative to it
            res, pf, muts, argv = run(list(perms[0]), cwd=".", spelling="abs", extra_plan=["* getcwd 0 * errno %d" % [2, 13, 36][case["permseed"] % 3]])
            v.planned("getcwd-errno")
            if any(e.fault for e in res.events):
                v.fired("getcwd-errno")
            if pf != base_pf or res.exit != base_res.exit:
                diff = sorted(f for f in set(pf) | set(base_pf) if pf.get(f) != base_pf.get(f))
                v.add("C15:cwd-or-spelling|unnameable-cwd", "absolute inputs, getcwd fails: results differ for %s (exit %s vs %s); argv=%s" % (diff[:3], res.status(), base_res.status(), argv))
        penv = {"TERM": "xterm-256color", "LANG": "de_DE.UTF-8", "LC_ALL": "tr_TR.UTF-8", "NO_COLOR": "1", "COLUMNS": "40",
                "TMPDIR": "$ROOT/nonexistent-tmp", "RUST_BACKTRACE": "1", "PWD": "/somewhere/else", "RUSTFMT": "/bin/false",
                "CARGO": "/bin/false", "XDG_CONFIG_HOME": "$ROOT/none"}
        res, pf, muts, argv = run(list(perms[0]), env=penv)
        if pf != base_pf or res.exit != base_res.exit:
            v.add("C15:environment", "perturbed environment changes results; argv=%s" % argv)
        # HOME naming a directory inside the project (a build user whose home is the checkout, a container): the
        # project files at or above each input still decide
        hdirs = sorted({os.path.dirname(inputs[k]["root"]) for k in range(n)}, key=lambda d: (-d.count("/"), d))[:2]
        for hd in hdirs:
            # (a directory holding a configuration file of its own would make that file the per-user fallback of the
            # other inputs: legitimate, and not what is asked here)
            if not hd or any(os.path.join(hd, c) in world["files"] for c in ("rustfmt.toml", ".rustfmt.toml")) or any(f.startswith(hd + "/.config/") for f in world["files"]):
                continue
            res, pf, muts, argv = run(list(perms[0]), env={"HOME": "$ROOT/" + hd})
            v.probe("home-inside-project")
            if pf != base_pf or res.exit != base_res.exit:
                diff = sorted(f for f in set(pf) | set(base_pf) if pf.get(f) != base_pf.get(f))
                v.add("C15:environment|home-inside-project", "HOME=$ROOT/%s changes the results for %s (exit %s vs %s); argv=%s" % (hd, diff[:3], res.status(), base_res.status(), argv))
                break
        # (d) stdin
        for k in range(n):
            if len(inputs[k]["files"]) == 1 and mode in ("stdout",) and inputs[k]["kind"] != "broken":
                f = inputs[k]["files"][0]
                sc.fresh_world(world)
                r = core.run_inv(sc, {"argv": ["--color", "never"] + list(case["cli"]), "cwd": os.path.dirname(f),
                                      "stdin": {"b64": _b64(core.file_bytes(world["files"][f]))}, "hashseed": case["hashseed"],
                                      "plan": [None, ["* read 0 @0 short 5,1,2,64"], ["* read 0 @0 short 3"]][case["hashseed"] % 3]})
                v.account(r, nontrivial=False)
                want = single[k][1].get(f)
                if want is not None and single[k][0].exit == 0 and r.exit != 0:
                    v.add("C15:stdin-rejected-but-path-accepted", "%s: exit 0 as a path, %s on stdin (stderr %r)" % (f, r.status(), core.text_of(r.stderr)[:160]), file=f)
                if want is not None and r.exit == 0 and r.stdout != want:
                    v.add("C15:stdin-vs-path", "%s: bytes for the source on stdin differ from its path run" % f, file=f)
                v.probe("stdin-delivery")
        if any(i["kind"] == "broken" for i in inputs):
            v.probe("input-failing-to-parse")
        if any(a["dir"].startswith(b["dir"] + "/") for a in inputs for b in inputs):
            v.probe("nested-input-directories")
        v.sample = {"inputs": [(i["root"], i["kind"]) for i in inputs], "mode": mode, "cli": case["cli"],
                    "configs": {p: core.file_bytes(s).decode() for p, s in case["world"]["files"].items() if p.endswith("rustfmt.toml")},
                    "permutations": len(perms), "single_statuses": [s[0].status() for s in single]}
    return v


def _b64(b):
    import base64
    return base64.b64encode(b).decode()


def shrinks(case):
    n = len(case["inputs"])
    if n > 1:
        for i in range(n):
            c = copy.deepcopy(case)
            c["inputs"] = [x for j, x in enumerate(case["inputs"]) if j != i]
            yield c
    if case["cli"]:
        c = copy.deepcopy(case); c["cli"] = []; yield c
    for f in list(case["world"]["files"]):
        if f.endswith("rustfmt.toml"):
            c = copy.deepcopy(case); del c["world"]["files"][f]; yield c
            txt = core.file_bytes(case["world"]["files"][f]).decode()
            lines = txt.strip().split("\n")
            if len(lines) > 1:
                for i in range(len(lines)):
                    c = copy.deepcopy(case)
                    c["world"]["files"][f] = "\n".join(lines[:i] + lines[i + 1:]) + "\n"
                    yield c
    for i in case["inputs"]:
        if i["kind"] != "unformatted":
            c = copy.deepcopy(case)
            for x in c["inputs"]:
                if x["root"] == i["root"]:
                    x["kind"] = "unformatted"
            yield c
