"""C18 -- cargo fmt formats the right targets with the right editions.

Abstract workspace model -> Cargo.toml / source files; `cargo-fmt` runs for real
with the recording stub as $RUSTFMT and the real cargo for `cargo metadata`.
The reference answer is computed from an independent, full `cargo metadata` call.
"""
import copy
import json
import os
import subprocess

from .. import core, prng
from ..engine import Verdict

ID = "C18"
LEVEL = "exploration"
RULE = ("world = Cargo workspace drawn from an abstract model (1-4 members, virtual or rooted, lib / bin / explicit [[bin]] / "
        "example / test / bench / build-script targets, package and per-target editions 2015-2024, path dependencies inside "
        "and outside the workspace incl. transitive ones, a source file shared by two targets, an excluded member); script = "
        "cargo-fmt with a drawn selection (-p.., --all, none), --manifest-path, --check, --message-format, options after "
        "`--`, from a drawn cwd; faults = scripted child statuses / signals, spawn failure (ENOENT, EACCES), failing cargo, "
        "unknown package, bad manifest path. distinct_nontrivial = distinct (op,path,result) signatures of cargo-fmt incl. "
        "its recorded children.")
ASSUMPTIONS = [
    "ground truth for targets and editions is an independent full `cargo metadata --format-version 1 --offline` run by the harness",
    "with no selection at the root of a multi-package workspace both 'root package only' and 'all members' are accepted (the property's 'current package' is ambiguous there; the tool documents the latter)",
    "no optional / renamed dependencies and no shared file across different editions are generated",
]
COMPONENTS = {
    "cargo-fmt": "real (rebuilt from /repo working tree)",
    "$RUSTFMT": "stub (stub-rustfmt: records argv/cwd, exits or dies as scripted); the real rustfmt in the end-to-end lane",
    "cargo metadata": "real cargo of the pinned toolchain, offline, path-only dependencies",
    "file system": "real tmpfs behind the simfs interposer", "hash seed": "simulated",
}
EDITIONS = ["2015", "2018", "2021", "2024"]
SRC = "fn  f( ){ }\n"


def generate(rng, tier):
    files = {}
    nmem = rng.range(1, 4)
    virtual = nmem > 1 and rng.chance(50)
    single = nmem == 1 and rng.chance(60)  # a plain package, no [workspace]
    pk = []  # package models

    def mkpkg(name, d, allow_dep=True):
        p = {"name": name, "dir": d, "edition": rng.choice(EDITIONS + [None]), "targets": [], "deps": []}
        tk = rng.subset(["lib", "main", "bin2", "xbin", "example", "test", "bench", "build"], 40)
        if not (set(tk) & {"lib", "main", "bin2", "xbin"}):
            tk.append(rng.choice(["lib", "main"]))
        for t in tk:
            te = rng.choice(EDITIONS) if rng.chance(25) else None
            p["targets"].append({"kind": t, "edition": te})
        if "xbin" in tk and "example" in tk and rng.chance(50):
            p["shared"] = True
        return p

    for i in range(nmem):
        d = "ws" if (i == 0 and not virtual) else rng.choice(["ws/m%d" % i, "ws/crates/m%d" % i])
        pk.append(mkpkg("pk%d" % i, d))
    ext = []
    if rng.chance(45):
        ext.append(mkpkg("ext0", "ext0"))
        if rng.chance(40):
            ext.append(mkpkg("ext1", "ext1"))
            ext[0]["deps"].append("ext1")
        user0 = rng.choice(pk)
        user0["deps"].append("ext0")
        others = [p for p in pk if p is not user0]
        if others and rng.chance(35):
            # another package that carries the same *name* as ext0 (a different version, in another directory), used by
            # another member: a different local path dependency, to be formatted like any other
            dup = mkpkg("extdup", "extdup")
            dup["pname"], dup["version"] = "ext0", "0.2.0"
            ext.append(dup)
            rng.choice(others)["deps"].append("extdup")
    if ext and rng.chance(40):
        # a third outside package, reached only as a *later* entry (by name) of a dependency list whose earlier
        # entries have been walked already: two members sharing ext0 of which one has ext2 as well, or one member
        # with a diamond (ext0 -> ext1, and ext1 again directly) plus ext2
        ext.append(mkpkg("ext2", "ext2"))
        shape = rng.below(3)
        free = [p for p in others if "extdup" not in p["deps"]]  # (two packages called ext0 cannot be one package's dependencies)
        if shape == 0 and free:
            b = rng.choice(free)
            b["deps"] += [d for d in ("ext0", "ext2") if d not in b["deps"]]
        elif shape == 1 and any(p["name"] == "ext1" for p in ext):
            user0["deps"] += ["ext1", "ext2"]
        else:
            user0["deps"].append("ext2")
    for i in range(1, nmem):
        if rng.chance(35):
            pk[i]["deps"].append(pk[rng.below(i)]["name"])
    excluded = None
    if not single and rng.chance(20):
        excluded = mkpkg("excl", "ws/excl")
    if excluded and rng.chance(70):
        # a path dependency that lives inside the workspace directory without being a member
        rng.choice(pk)["deps"].append("excl")
    allp = pk + ext + ([excluded] if excluded else [])
    byname = {p["name"]: p for p in allp}
    # cargo ignores a dependency without a lib target, so every dependency gets one
    for p in allp:
        p["depkind"] = {dn: rng.choice(["dependencies", "dependencies", "dev-dependencies", "build-dependencies"]) for dn in p["deps"]}
        for dn in p["deps"]:
            if not any(t["kind"] == "lib" for t in byname[dn]["targets"]):
                byname[dn]["targets"].append({"kind": "lib", "edition": None})

    def render(p, workspace_hdr=""):
        lines = ["[package]", 'name = "%s"' % p.get("pname", p["name"]), 'version = "%s"' % p.get("version", "0.1.0")]
        if p["edition"]:
            lines.append('edition = "%s"' % p["edition"])
        has_build = any(t["kind"] == "build" for t in p["targets"])
        if has_build:
            lines.append('build = "build.rs"')
            files[os.path.join(p["dir"], "build.rs")] = "fn  main( ){ }\n"
        for t in p["targets"]:
            k, te = t["kind"], t["edition"]
            ed = ['edition = "%s"' % te] if te else []
            if k == "lib":
                files[os.path.join(p["dir"], "src/lib.rs")] = SRC
                if te:
                    lines += ["", "[lib]"] + ed
            elif k == "main":
                files[os.path.join(p["dir"], "src/main.rs")] = "fn  main( ){ }\n"
                if te:
                    lines += ["", "[[bin]]", 'name = "%s"' % p["name"], 'path = "src/main.rs"'] + ed
            elif k == "bin2":
                files[os.path.join(p["dir"], "src/bin/tool.rs")] = "fn  main( ){ }\n"
                if te:
                    lines += ["", "[[bin]]", 'name = "tool"', 'path = "src/bin/tool.rs"'] + ed
            elif k == "xbin":
                files[os.path.join(p["dir"], "custom/x_%s.rs" % p["name"])] = "fn  main( ){ }\n"
                lines += ["", "[[bin]]", 'name = "x%s"' % p["name"], 'path = "custom/x_%s.rs"' % p["name"]] + ed
            elif k == "example":
                if p.get("shared"):
                    xb = [x for x in p["targets"] if x["kind"] == "xbin"][0]
                    lines += ["", "[[example]]", 'name = "ex"', 'path = "custom/x_%s.rs"' % p["name"]] + (['edition = "%s"' % xb["edition"]] if xb["edition"] else [])
                else:
                    files[os.path.join(p["dir"], "examples/ex.rs")] = "fn  main( ){ }\n"
                    if te:
                        lines += ["", "[[example]]", 'name = "ex"'] + ed
            elif k == "test":
                files[os.path.join(p["dir"], "tests/it.rs")] = SRC
                if te:
                    lines += ["", "[[test]]", 'name = "it"'] + ed
            elif k == "bench":
                files[os.path.join(p["dir"], "benches/bn.rs")] = SRC
                if te:
                    lines += ["", "[[bench]]", 'name = "bn"'] + ed
        if xshare and xshare[0] == p["name"]:
            lines += ["", "[[example]]", 'name = "shared_from_sibling"', 'path = "%s"' % xshare[1], 'edition = "%s"' % xshare[2]]
        for sect in ("dependencies", "dev-dependencies", "build-dependencies"):
            ds = [dn for dn in p["deps"] if p.get("depkind", {}).get(dn, "dependencies") == sect]
            if ds:
                lines += ["", "[%s]" % sect]
                for dn in ds:
                    rel = os.path.relpath(byname[dn]["dir"], p["dir"])
                    lines.append('%s = { path = "%s" }' % (byname[dn].get("pname", dn), rel))
        files[os.path.join(p["dir"], "Cargo.toml")] = "\n".join(lines) + "\n" + workspace_hdr

    # a source file shared by targets of two different packages, reached through `..` from the second one
    xshare = None
    if len(pk) >= 2 and rng.chance(25):
        a, b = rng.sample(pk, 2)
        if any(t["kind"] == "lib" for t in a["targets"]) and not a["dir"].startswith(b["dir"] + "/") and not b["dir"].startswith(a["dir"] + "/"):
            la = [t for t in a["targets"] if t["kind"] == "lib"][0]
            xshare = (b["name"], os.path.join(os.path.relpath(a["dir"], b["dir"]), "src/lib.rs"), la["edition"] or a["edition"] or "2015")
    members = [p for p in pk if p["dir"] != "ws"]
    ws_hdr = ""
    if not single:
        ws_lines = ["", "[workspace]", "members = [%s]" % ", ".join('"%s"' % os.path.relpath(p["dir"], "ws") for p in members)]
        if excluded:
            ws_lines.append('exclude = ["excl"]')
        ws_hdr = "\n".join(ws_lines) + "\n"
    for p in pk:
        if p["dir"] == "ws":
            render(p, ws_hdr)
        else:
            render(p)
    if virtual:
        files["ws/Cargo.toml"] = ws_hdr.lstrip("\n")
    for p in ext:
        render(p)
    if excluded:
        render(excluded, "\n[workspace]\n")
    # ---- script
    sel_kind = rng.choice(["none", "none", "all", "all", "p", "p", "unknown"])
    sel = []
    if sel_kind == "p":
        sel = rng.sample([p["name"] for p in pk], rng.range(1, min(2, len(pk))))
        dr = prng.Rng(prng.mix(rng.seed, "c18-package-named-twice"))  # a side stream
        if dr.chance(25):
            # the same package named twice (cargo accepts that): still a selection of that package
            sel = dr.shuffle(sel + [dr.choice(sel)])
    elif sel_kind == "unknown":
        sel = ["nosuchpkg"] + ([pk[0]["name"]] if rng.chance(50) else [])
    files["ws/docs/readme.txt"] = "a directory of the workspace that belongs to no package\n"
    cwds = ["ws"] + [p["dir"] for p in pk] + ([ext[0]["dir"]] if ext else []) + (["ws/docs"] if not single else [])
    cwd = rng.choice(cwds)
    subdir = False
    if rng.chance(12):
        mp = rng.choice(pk)
        subs = sorted({os.path.dirname(f) for f in files if f.startswith(mp["dir"] + "/") and os.path.dirname(f) != mp["dir"]
                       and not any(f.startswith(q["dir"] + "/") for q in pk if q is not mp and q["dir"].startswith(mp["dir"] + "/"))})
        if subs:
            cwd = rng.choice(subs)
            subdir = True
    manifest = None
    mk = rng.below(100)
    if mk < 15:
        manifest = os.path.join(rng.choice(pk)["dir"], "Cargo.toml")
    elif mk < 19:
        manifest = "ws/NoSuch/Cargo.toml"
    elif mk < 27 and "ws/Cargo.toml" in files:
        manifest = "ws/Cargo.toml"  # the workspace's own manifest, virtual or not
    elif mk < 23:
        manifest = os.path.join(pk[0]["dir"], "Cargo.lock")  # does not end in Cargo.toml
    mspell = rng.choice(["plain", "plain", "dotdot", "symlink", "relative"]) if manifest and manifest.endswith("Cargo.toml") and (mk < 15 or manifest == "ws/Cargo.toml") else "plain"
    if mspell == "symlink":
        files["wslink"] = {"symlink": "ws"}
    check = rng.chance(30)
    msgfmt = rng.choice([None, None, None, "short", "json", "human"])
    after = rng.choice([[], [], ["--config", "max_width=80"], ["-v"], ["--unstable-features", "--skip-children"]])
    if msgfmt == "json" and check:
        check = False
    fault = rng.choice(["none"] * 4 + ["status", "status", "signal", "signal", "spawn-enoent", "spawn-eacces", "cargo-fails",
                        "realpath-errno", "realpath-errno"])
    info_argv, info_fault = None, None
    if rng.chance(4):
        info_argv = rng.choice([["--version"], ["--", "--version"], ["--", "--help"], ["--", "-V"], ["--", "--print-config", "default"]])
        info_fault = rng.choice(["none", "status", "signal", "signal"])
    return {
        "info_argv": info_argv, "info_fault": info_fault,
        "world": {"files": files}, "packages": [p["name"] for p in pk], "ext": [p["name"] for p in ext],
        "virtual": virtual, "single": single, "sel_kind": sel_kind, "sel": sel, "cwd": cwd, "subdir": subdir,
        "manifest": manifest, "mspell": mspell, "check": check, "msgfmt": msgfmt, "after": after, "fault": fault,
        "fault_arg": rng.below(1000), "hashseed": rng.below(1 << 32),
        "dirs": {p["name"]: p["dir"] for p in allp}, "deps": {p["name"]: list(p["deps"]) for p in allp}, "e2e": rng.chance(8) and not msgfmt and not check and after in ([], ["--config", "max_width=80"]),
    }


def cargo_env(sc):
    ti = core.toolinfo()
    ch = os.path.join(sc.top, "cargohome")
    os.makedirs(ch, exist_ok=True)
    return {"CARGO": ti["cargo"], "RUSTC": ti["rustc"], "CARGO_HOME": ch, "PATH": os.path.dirname(ti["cargo"]) + ":/usr/bin:/bin",
            "CARGO_NET_OFFLINE": "true"}


def reference_metadata(sc, cwd, manifest, nodeps=False):
    """independent ground truth: full `cargo metadata` (with path dependencies)"""
    ti = core.toolinfo()
    env = dict(cargo_env(sc))
    env["HOME"] = os.path.join(sc.root, "home")
    env["LD_LIBRARY_PATH"] = ti["sysroot_lib"]
    args = [ti["cargo"], "metadata", "--format-version", "1", "--offline"] + (["--no-deps"] if nodeps else [])
    if manifest:
        args += ["--manifest-path", os.path.join(sc.root, manifest)]
    r = subprocess.run(args, cwd=os.path.join(sc.root, cwd), env=env, capture_output=True, text=True)
    if r.returncode != 0:
        return None, r.stderr
    return json.loads(r.stdout), ""


def _lane_info(case):
    """`cargo fmt --version`, `cargo fmt -- --help` ...: nothing is formatted, one rustfmt is run for its answer; its
    failure is cargo fmt's failure"""
    v = Verdict()
    with core.Scratch() as sc:
        world = copy.deepcopy(case["world"])
        world["files"]["home/.keep"] = ""
        sc.fresh_world(world)
        stubplan = {"none": [], "status": ["0 exit 3"], "signal": ["0 signal 9"]}[case["info_fault"]]
        env = cargo_env(sc)
        env["RUSTFMT"] = core.STUB
        inv = {"tool": "cargo-fmt", "argv": list(case["info_argv"]), "cwd": case["cwd"], "env": env, "hashseed": case["hashseed"],
               "stubplan": stubplan}
        res = core.run_inv(sc, inv)
        v.account(res)
        det = "argv=%s cwd=%s child=%s status=%s" % (inv["argv"], case["cwd"], case["info_fault"], res.status())
        ab = core.abnormal(res)
        if ab and not ab.startswith("exit:"):
            v.add("C18:abnormal|%s" % ab, det)
        elif not res.stubcalls:
            v.add("C18:info-no-child", det)
        elif case["info_fault"] != "none" and res.exit == 0:
            v.add("C18:exit-0-despite-failing-child|info-%s" % case["info_fault"], det)
        elif case["info_fault"] == "none" and res.exit != 0:
            v.add("C18:nonzero-exit-although-child-succeeded|info", det)
        v.probe("info-invocation")
        v.sample = {"lane": "info", "argv": inv["argv"], "status": res.status()}
    return v


def execute(case):
    if case.get("info_argv"):
        return _lane_info(case)
    v = Verdict()
    with core.Scratch() as sc:
        world = copy.deepcopy(case["world"])
        world["files"]["home/.keep"] = ""
        # ---- reference (own world copy: full cargo metadata writes Cargo.lock)
        sc.fresh_world(world)
        manifest = case["manifest"]
        md, mderr = reference_metadata(sc, case["cwd"], manifest if manifest and manifest.endswith("Cargo.toml") else None)
        real_root = os.path.realpath(sc.root)
        expected = None   # list of acceptable answers: each {edition: set(paths rel to root)}
        invalid = False
        reason = ""
        if manifest and not manifest.endswith("Cargo.toml"):
            invalid, reason = True, "manifest path does not end in Cargo.toml"
        elif md is None:
            # the reference `cargo metadata` refuses the selection.  That is an answer only for a manifest this case made
            # unusable on purpose; any other failure (the environment, the tool chain) is the harness's problem, not a
            # property of cargo-fmt
            if manifest == "ws/NoSuch/Cargo.toml" or "could not find" in mderr or "does not exist" in mderr or "failed to read" in mderr or "manifest path" in mderr:
                invalid, reason = True, "cargo metadata fails: " + mderr.strip().split("\n")[-1][:100]
            else:
                raise core.HarnessError("reference `cargo metadata` failed for a usable manifest: " + mderr.strip()[-300:])
        elif case["sel_kind"] == "unknown":
            invalid, reason = True, "unknown package"
        else:
            pk = {p["name"]: p for p in md["packages"]}
            members = {pid for pid in md["workspace_members"]}
            mem_pk = [p for p in md["packages"] if p["id"] in members]

            def tmap(pkgs):
                out = {}
                for p in pkgs:
                    for t in p["targets"]:
                        sp = os.path.relpath(os.path.realpath(t["src_path"]), real_root)
                        out.setdefault(t["edition"], set()).add(sp)
                return out

            if case["sel_kind"] == "all":
                # every workspace member and every local path dependency, transitively: the closure comes from the
                # abstract model (all dependency kinds; cargo's own resolve drops the dev-dependencies of
                # non-members), the targets and editions of each package from cargo
                names = {p["name"] for p in mem_pk}
                deps = case.get("deps", {})
                todo = list(names)
                while todo:
                    n = todo.pop()
                    for d in deps.get(n, []):
                        if d not in names:
                            names.add(d)
                            todo.append(d)
                local = []
                bymanifest = {os.path.realpath(p["manifest_path"]): p for p in md["packages"] if p["source"] is None}
                for n in sorted(names):
                    mp_ = os.path.realpath(os.path.join(sc.root, case["dirs"][n], "Cargo.toml")) if n in case.get("dirs", {}) else None
                    if mp_ in bymanifest:
                        local.append(bymanifest[mp_])
                    elif mp_ is None and n in pk and pk[n]["source"] is None:
                        local.append(pk[n])
                    else:
                        md1, _ = reference_metadata(sc, ".", os.path.join(case["dirs"][n], "Cargo.toml"), nodeps=True)
                        if md1 is None:
                            raise core.HarnessError("cargo metadata failed for " + n)
                        want = os.path.realpath(os.path.join(sc.root, case["dirs"][n], "Cargo.toml"))
                        local += [p for p in md1["packages"] if os.path.realpath(p["manifest_path"]) == want]
                expected = [tmap(local)]
            elif case["sel_kind"] == "p":
                chosen = [p for p in mem_pk if p["name"] in case["sel"]]
                if len(chosen) != len(set(case["sel"])):
                    invalid, reason = True, "selected package is not a member of this workspace"
                else:
                    expected = [tmap(chosen)]
            else:
                base = os.path.join(sc.root, manifest) if manifest else os.path.join(sc.root, case["cwd"], "Cargo.toml")
                # the current package: the nearest manifest at or above the cwd
                cur = None
                d = os.path.dirname(base)
                while cur is None and d.startswith(sc.root):
                    for p in mem_pk:
                        if os.path.realpath(p["manifest_path"]) == os.path.realpath(os.path.join(d, "Cargo.toml")):
                            cur = p
                    d = os.path.dirname(d)
                ws_root = os.path.realpath(md["workspace_root"])
                at_ws_root = os.path.realpath(os.path.dirname(base)) == ws_root
                acc = []
                if cur is not None:
                    acc.append(tmap([cur]))
                if at_ws_root and not manifest:
                    acc.append(tmap(mem_pk))
                if not manifest and cur is None and not at_ws_root:
                    # a directory below a virtual workspace root that belongs to no member: the nearest manifest is
                    # the workspace's, as from the workspace root
                    d2 = os.path.realpath(os.path.dirname(base))
                    while d2.startswith(os.path.realpath(sc.root)) and not os.path.isfile(os.path.join(d2, "Cargo.toml")):
                        d2 = os.path.dirname(d2)
                    if d2 == ws_root:
                        acc.append(tmap(mem_pk))
                if at_ws_root and manifest and cur is None:
                    # the manifest of a virtual workspace named explicitly: the same selection as from its directory
                    acc.append(tmap(mem_pk))
                if not acc:
                    invalid, reason = True, "no current package (virtual manifest)"
                expected = acc
        # ---- the real run
        sc.fresh_world(world)
        snap0 = core.snapshot(sc.root)
        argv = []
        if case["sel_kind"] == "all":
            argv.append("--all")
        for s in case["sel"]:
            argv += ["-p", s]
        if manifest:
            sp = case.get("mspell", "plain")
            if sp == "dotdot":
                parts = manifest.split("/")
                marg = "$ROOT/" + "/".join(parts[:-1] + ["..", parts[-2], parts[-1]]) if len(parts) >= 2 else "$ROOT/" + manifest
            elif sp == "symlink" and manifest.startswith("ws/"):
                marg = "$ROOT/wslink/" + manifest[3:]
            elif sp == "relative":
                marg = os.path.relpath(manifest, case["cwd"])
            else:
                marg = "$ROOT/" + manifest
            argv += ["--manifest-path", marg]
        if case["check"]:
            argv.append("--check")
        if case["msgfmt"]:
            argv += ["--message-format", case["msgfmt"]]
        if case["after"]:
            argv += ["--"] + case["after"]
        env = cargo_env(sc)
        env["RUSTFMT"] = core.STUB
        stubplan, plan = [], []
        fault = case["fault"]
        fa = case["fault_arg"]
        if fault == "status":
            stubplan = ["%s exit %d" % (["*", "0", "1"][fa % 3], [1, 2, 101, 1][fa % 4])]
        elif fault == "signal":
            stubplan = ["%s signal %d" % (["*", "0", "1"][fa % 3], [9, 11, 6][fa % 3])]
        elif fault == "spawn-enoent":
            env["RUSTFMT"] = "/nonexistent/rustfmt-%d" % fa
        elif fault == "spawn-eacces":
            plan = ["0 spawn %d stub-rustfmt errno 13" % (1 + fa % 2)]
        elif fault == "cargo-fails":
            env["CARGO"] = "/bin/false"
        elif fault == "realpath-errno":
            # canonicalising one path fails: the target (or manifest) is still the same file
            plan = ["0 realpath %d * errno %d" % (1 + fa % 5, [5, 13, 40][fa % 3])]
        if case["e2e"] and fault == "none":
            env["RUSTFMT"] = os.path.join(core.BIN, "rustfmt")
        inv = {"tool": "cargo-fmt", "argv": argv, "cwd": case["cwd"], "env": env, "hashseed": case["hashseed"],
               "plan": plan, "stubplan": stubplan}
        res = core.run_inv(sc, inv)
        v.account(res)
        v.planned(fault)
        det = "argv=%s cwd=%s fault=%s status=%s stderr=%r" % (argv, case["cwd"], fault, res.status(), core.text_of(res.stderr)[:160])
        ab = core.abnormal(res)
        if ab and not (ab.startswith("exit:") ):
            v.add("C18:abnormal|%s" % ab, det)
            return v
        calls = res.stubcalls
        e2e = case["e2e"] and fault == "none"
        spawns = [e for e in res.procs[0] if e.op == "spawn" and os.path.basename(str(e.path)) in ("stub-rustfmt", "rustfmt") or (e.op == "spawn" and str(e.path).startswith("/nonexistent"))]
        # oracle 5: cargo-fmt itself never mutates files
        muts = res.muts(0)
        if muts:
            v.add("C18:cargo-fmt-mutates-files", "%s: %s" % (det, [e.raw for e in muts][:3]))
        if fault == "cargo-fails" or invalid:
            if fault == "cargo-fails":
                v.fired(fault)
            if spawns:
                v.add("C18:child-spawned-despite-invalid-selection", "%s (%s): %d rustfmt invocations" % (det, reason or "cargo metadata fails", len(spawns)))
            if res.exit == 0:
                v.add("C18:invalid-selection-exit-0", "%s (%s)" % (det, reason or "cargo metadata fails"))
            v.probe("invalid:" + (reason.split(":")[0] if reason else "cargo-fails"))
            v.sample = v.sample or {"argv": argv, "cwd": case["cwd"], "invalid": reason or "cargo-fails", "status": res.status()}
            return v
        if e2e:
            diff = core.snap_diff(snap0, core.snapshot(sc.root))
            want = set()
            for e, ps in expected[0].items():
                want |= ps
            got = {os.path.normpath(p) for p in diff}
            if not any({os.path.normpath(x) for x in set().union(*acc.values())} == got for acc in expected):
                v.add("C18:e2e-rewritten-set", "%s: rewritten %s, expected roots %s" % (det, sorted(got), [sorted(set().union(*a.values())) for a in expected]))
            v.probe("end-to-end-real-rustfmt")
            return v
        # ---- recorded children
        got = {}
        dup = []
        passthru_bad = None
        want_pass = list(case["after"])
        if case["check"] and "--check" not in want_pass:
            want_pass.append("--check")
        if case["msgfmt"] == "short" and "-l" not in want_pass:
            want_pass.append("-l")
        if case["msgfmt"] == "json":
            want_pass += ["--emit", "json"]
        for c in calls:
            a = c["argv"]
            if "--edition" not in a:
                v.add("C18:child-without-edition", "%s: child argv %s" % (det, a))
                continue
            k = a.index("--edition")
            ed = a[k + 1]
            for f in a[:k]:
                rp = os.path.relpath(os.path.realpath(f), real_root)
                if rp in got.setdefault(ed, set()) or any(rp in s for e2, s in got.items() if e2 != ed):
                    dup.append(rp)
                got[ed].add(rp)
            rest = a[k + 2:]
            if rest != want_pass:
                passthru_bad = (rest, want_pass)
        nchild_expected = None
        spawn_failed = fault in ("spawn-enoent", "spawn-eacces")
        complete = not (spawn_failed and (any(e.fault for e in res.procs[0]) or fault == "spawn-enoent"))
        if fault == "realpath-errno" and any(e.fault for e in res.procs[0]):
            # a path could not be canonicalised: failing before anything is formatted is fine, and so is handing a
            # file over under its uncanonical name (possibly twice) -- silently dropping a target is not
            v.fired(fault)
            if not calls and res.exit != 0:
                v.probe("realpath-error-reported")
                return v
            ok = any(all(acc[e] <= got.get(e, set()) for e in acc) for acc in expected)
            if not ok:
                acc = expected[0]
                missing = {e: sorted(acc.get(e, set()) - got.get(e, set())) for e in acc if acc.get(e, set()) - got.get(e, set())}
                v.add("C18:target-dropped-under-realpath-error", "%s: missing %s" % (det, missing))
            return v
        if complete:
            if not any(got == acc for acc in expected):
                acc = expected[0]
                missing = {e: sorted(acc.get(e, set()) - got.get(e, set())) for e in acc if acc.get(e, set()) - got.get(e, set())}
                extra = {e: sorted(got.get(e, set()) - acc.get(e, set())) for e in got if got.get(e, set()) - acc.get(e, set())}
                cls = "C18:targets-or-editions"
                if case["subdir"] and not calls:
                    cls += "|member-subdirectory"
                v.add(cls, "%s: missing %s extra %s" % (det, missing, extra))
            if dup:
                v.add("C18:file-passed-twice", "%s: %s" % (det, dup))
            if passthru_bad:
                v.add("C18:pass-through", "%s: child got %s, expected %s" % (det, passthru_bad[0], passthru_bad[1]))
        # oracle 3: exit status
        failing = False
        if spawn_failed and (any(e.fault for e in res.procs[0]) or fault == "spawn-enoent"):
            failing = True
            v.fired(fault)
        for i, c in enumerate(calls):
            for line in stubplan:
                who, act, val = line.split()
                if who == "*" or int(who) == i:
                    if act == "signal" or int(val) != 0:
                        failing = True
                        v.fired(fault)
                        if act == "signal":
                            v.probe("child-killed-by-signal")
        if failing and res.exit == 0:
            cls = "C18:exit-0-despite-failing-child|" + ("signal" if fault == "signal" else "spawn" if spawn_failed else "status")
            v.add(cls, det)
        if not failing and res.exit != 0 and calls:
            v.add("C18:nonzero-exit-without-failure", det)
        if len(got) > 1:
            v.probe("multiple-editions")
        if case["ext"] and case["sel_kind"] == "all":
            v.probe("path-dependency-outside-workspace")
        if case["subdir"]:
            v.probe("cwd-in-member-subdirectory")
        v.sample = v.sample or {"argv": argv, "cwd": case["cwd"], "manifests": sorted(p for p in world["files"] if p.endswith("Cargo.toml")),
                                "children": [c["argv"] for c in calls][:3], "status": res.status(), "fault": fault}
    return v


def shrinks(case):
    for k, val in (("check", False), ("msgfmt", None), ("after", []), ("e2e", False)):
        if case[k]:
            c = copy.deepcopy(case); c[k] = val; yield c
    if case["fault"] != "none":
        c = copy.deepcopy(case); c["fault"] = "none"; yield c
