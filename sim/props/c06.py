"""C06 -- check mode is read-only and exact; all emit modes agree on the text.

One world (a small crate), the whole emit-mode matrix on fresh copies of it, plus
the check/format histories; oracles relate the recorded histories to each other.
"""
import copy
import json
import os
import re

from .. import core, gen_rust, gen_tree, prng
from ..engine import Verdict

ID = "C06"
LEVEL = "exploration"
RULE = ("world = crate of 1-4 files, each independently unformatted / already formatted / LF / CRLF / BOM / no "
        "final newline, optional rustfmt.toml (newline_style, max_width, tab_spaces, hard_tabs); script = emit-mode "
        "matrix {files, files -l, --backup, stdout, stdout -q, --check, --check -l, json, checkstyle, modified-lines, "
        "coverage} x {path, stdin} on fresh copies plus histories check->format->check, format->check->format, "
        "format->format; short writes / EINTR on stdout and short reads on stdin in a drawn subset of runs. "
        "distinct_nontrivial = distinct (op,path,result) trace signatures over all runs of worlds in which at least "
        "one file needed rewriting.")
ASSUMPTIONS = [
    "reports are line based: text reconstructed from json / modified-lines / diff reports is compared as a line sequence (str::lines semantics), stdout / files / stdin text as bytes",
    "stdin check-mode exit status is not judged (the pinned suite fixes it at 0)",
    "colour is forced off (--color never, TERM=dumb)",
]
COMPONENTS = {
    "rustfmt": "real (rebuilt from /repo working tree, dev profile, --cfg rustfmt_verif)",
    "file system / stdin / stdout": "real tmpfs and pipes behind the simfs interposer (short reads/writes, EINTR injected)",
    "hash seed": "simulated", "clock": "simulated",
}


def generate(rng, tier):
    dr = prng.Rng(prng.mix(rng.seed, "c06-symlinked-dotdot"))  # a side stream: the main stream stays what it was
    if dr.chance(3):
        # lane L: a module declared through `dir/../file.rs` where dir is a symbolic link to a directory elsewhere: the
        # module is the file the kernel arrives at (next to the link's target), not the one at the lexically folded
        # path, where an unrelated file sits
        return {"lane": "dotdot", "module": gen_rust.unformatted(dr, 1 + dr.below(2)), "root_clean": dr.chance(50),
                "root_body": gen_rust.unformatted(dr, 1), "bystander": dr.choice(["unrelated", "formatted-copy", "not-rust"]),
                "abs": dr.chance(30), "hashseed": dr.below(1 << 32), "stream_faults": 0, "world": {"files": {}}, "sources": [],
                "variant": {}, "preformatted": []}
    if rng.chance(6):
        # a module file that is also named as an input of its own and has a nearer rustfmt.toml: formatted under the
        # crate's configuration it is clean as a child of the first input, but not as a root under its own config
        inner = rng.choice(["tab_spaces = 2\n", "hard_tabs = true\n", "tab_spaces = 8\n", 'brace_style = "AlwaysNextLine"\n'])
        files = {
            "c/lib.rs": '#[path = "sub/leaf.rs"]\nmod leaf;\n' + (gen_rust.unformatted(rng, 1) if rng.chance(50) else "fn ok() {}\n"),
            "c/sub/leaf.rs": "fn  leaf( a:u8 ){if a>1 {call( a );}else{other( );}}\nstruct S{x:u8}\n",
            "c/sub/rustfmt.toml": inner,
        }
        return {"world": {"files": files}, "nested_overlap": True, "sources": ["c/lib.rs", "c/sub/leaf.rs"],
                "roots": ["c/lib.rs", "c/sub/leaf.rs"], "pre_roots": ["c/lib.rs"], "preformatted": ["c/lib.rs", "c/sub/leaf.rs"],
                "variant": {"c/lib.rs": "lf", "c/sub/leaf.rs": "lf"}, "tree": {"root": "c/lib.rs"}, "hashseed": rng.below(1 << 32),
                "stream_faults": 0, "abs": rng.chance(30), "order_swapped": rng.chance(30)}
    use_corpus = rng.chance(20)

    def body(r):
        if use_corpus and r.chance(50):
            return gen_rust.corpus_text(r, 2500)[1]
        if r.chance(5):
            # a macro arm whose body opts out with an inner attribute: the body is formatted as a text of its own
            return MACSKIP + gen_rust.unformatted(r, 1)
        return gen_rust.unformatted(r, 1 + r.below(3))

    t = gen_tree.gen_crate(rng, base="c", max_files=rng.choice([1, 1, 2, 4]), feats={"modrs", "path"}, body=body)
    files = dict(t.files)
    srcs = list(t.reach)
    roots = [t.root]
    if len(srcs) == 1 and rng.chance(12):
        files[t.root] = "#![rustfmt::skip]\n" + files[t.root]  # the whole source opts out
    # sometimes a second input on the same command line (an emitter's state must survive between inputs)
    nextra = rng.choice([0, 0, 0, 1, 1, 2])
    # (decisions of the nested-input variant come from a side stream: the main stream stays what it was)
    nr = prng.Rng(prng.mix(rng.seed, "c06-nested-input"))
    leafroots = []
    for j in range(nextra):
        t2 = gen_tree.gen_crate(rng, base="e%d" % j, root_name="x%d.rs" % j, max_files=rng.choice([1, 1, 2]), feats={"modrs"},
                                suffix="x%d" % j, body=body)
        if len(t2.reach) == 1 and nr.chance(45):
            # a one-file input living below the directory of the first input, often with a configuration of its own
            # there: each input is formatted under the configuration found from its own directory
            nd = os.path.join(os.path.dirname(t.root), "zz%d" % j)
            nroot = nd + "/x%d.rs" % j
            if not any(f.startswith(nd + "/") for f in files):
                files[nroot] = t2.files[t2.root]
                srcs.append(nroot)
                roots.append(nroot)
                leafroots.append(nroot)
                if nr.chance(75):
                    files[nd + "/" + nr.choice(["rustfmt.toml", ".rustfmt.toml"])] = nr.choice(
                        ["tab_spaces = 2\n", "hard_tabs = true\n", "tab_spaces = 8\n", 'brace_style = "AlwaysNextLine"\n',
                         'newline_style = "Windows"\n', "max_width = 40\n"])
                continue
        files.update(t2.files)
        srcs += list(t2.reach)
        roots.append(t2.root)
        if len(t2.reach) == 1:
            leafroots.append(t2.root)
    variant = {}
    for f in srcs:
        k = rng.below(100)
        variant[f] = ("crlf" if k < 12 else "bom" if k < 20 else "bomcrlf" if k < 24 else "nofinal" if k < 32 else "lf")
    pre = [f for f in srcs if rng.chance(40)]
    cfg = []
    if rng.chance(45):
        cfg.append('newline_style = "%s"' % rng.choice(["Unix", "Windows", "Auto", "Native"]))
    if rng.chance(25):
        cfg.append("max_width = %d" % rng.choice([50, 70, 100, 120]))
    if rng.chance(15):
        cfg.append("tab_spaces = %d" % rng.choice([2, 3, 8]))
    if rng.chance(10):
        cfg.append("hard_tabs = true")
    if rng.chance(12):
        cfg.append("make_backup = true")  # in a discovered rustfmt.toml: must never make a read-only mode write
    if cfg:
        files["c/" + rng.choice(["rustfmt.toml", ".rustfmt.toml"])] = "\n".join(cfg) + "\n"
    # a module file that is a symbolic link to a regular file kept elsewhere: every emitter sees the same text, and
    # files mode stores the result in the file the link points to
    linked = {}
    cands = [f for f in srcs if f not in roots]
    if cands and rng.chance(15):
        f = rng.choice(cands)
        tgt = "lkstore/" + os.path.basename(f)
        if tgt not in files:
            files[tgt] = files[f]
            files[f] = {"symlink": os.path.relpath(tgt, os.path.dirname(f))}
            linked[f] = tgt
    return {
        "world": {"files": files}, "tree": t.to_json(), "sources": srcs, "variant": variant, "preformatted": pre, "roots": roots,
        "hashseed": rng.below(1 << 32), "stream_faults": rng.below(4), "abs": rng.chance(20), "linked": linked,
        "leafroots": leafroots,
    }


MACSKIP = "macro_rules! mskip {\n    () => {\n        #![rustfmt::skip]\n        fn  kept( ) { }\n    };\n}\n"


def _apply_variant(b, var):
    t = b
    if var in ("crlf", "bomcrlf"):
        t = t.replace(b"\r\n", b"\n").replace(b"\n", b"\r\n")
    if var in ("bom", "bomcrlf") and not t.startswith(b"\xef\xbb\xbf"):
        t = b"\xef\xbb\xbf" + t
    if var == "nofinal":
        t = t.rstrip(b"\r\n")
    return t


def lines_of(b):
    """the line model of the `diff` crate used by every report: str::lines() (split on \\n, one trailing
    \\r stripped) plus one empty last element when the text ends with a newline"""
    s = b.decode("utf-8", "replace")
    if s == "":
        return []
    final = s.endswith("\n")
    parts = s.split("\n")
    if final:
        parts.pop()
    out = [p[:-1] if p.endswith("\r") else p for p in parts]
    if final:
        out.append("")
    return out


def _strip_bom(b):
    return b[3:] if b.startswith(b"\xef\xbb\xbf") else b


def parse_stdout_sections(out, cwd_abs, root_abs, known):
    """split `--emit stdout` output into per-file texts using the `<path>:\\n\\n` headers"""
    text = out.decode("utf-8", "replace")
    # find header positions
    heads = []
    for m in re.finditer(r"(?m)^(.+):\n\n", text):
        p = m.group(1)
        ap = os.path.normpath(os.path.join(cwd_abs, p))
        rel = os.path.relpath(ap, root_abs)
        if rel in known:
            if m.start() == 0 or text[m.start() - 1] == "\n" or True:
                heads.append((m.start(), m.end(), rel))
    secs = {}
    for i, (s, e, rel) in enumerate(heads):
        end = heads[i + 1][0] if i + 1 < len(heads) else len(text)
        if rel not in secs:
            secs[rel] = text[e:end].encode("utf-8")
    return secs


def apply_chunks(orig_lines, chunks):
    """chunks: [(line_number_orig (1-based), removed, [new lines])] sorted by position"""
    out = []
    pos = 1
    for start, removed, new in chunks:
        out.extend(orig_lines[pos - 1:start - 1])
        out.extend(new)
        pos = start + removed
    out.extend(orig_lines[pos - 1:])
    return out


def parse_modified_lines(text):
    lines = text.split("\n")
    if lines and lines[-1] == "":
        lines.pop()
    i = 0
    chunks = []
    while i < len(lines):
        parts = lines[i].split()
        if len(parts) != 3 or not all(p.isdigit() for p in parts):
            return None
        o, r, n = map(int, parts)
        chunks.append((o, r, lines[i + 1:i + 1 + n]))
        i += 1 + n
    return chunks


def parse_diff(text, cwd_abs, root_abs, known):
    """check-mode output -> {rel: [(orig_start, removed, new)]} with context lines kept as both"""
    res = {}
    cur = None
    newline_only = set()
    for line in text.split("\n"):
        m = re.match(r"^Diff in (.+):(\d+):$", line)
        if m:
            rel = os.path.relpath(os.path.normpath(os.path.join(cwd_abs, m.group(1))), root_abs)
            cur = [int(m.group(2)), 0, []]
            res.setdefault(rel, []).append(cur)
            continue
        m = re.match(r"^Incorrect newline style in (.+)$", line)
        if m:
            rel = os.path.relpath(os.path.normpath(os.path.join(cwd_abs, m.group(1))), root_abs)
            newline_only.add(rel)
            cur = None
            continue
        if cur is None:
            continue
        if line.startswith("+"):
            cur[2].append(line[1:])
        elif line.startswith("-"):
            cur[1] += 1
        elif line.startswith(" "):
            cur[1] += 1
            cur[2].append(line[1:])
    return {k: [tuple(c) for c in v] for k, v in res.items()}, newline_only


def xml_unescape(s):
    return (s.replace("&quot;", '"').replace("&apos;", "'").replace("&#39;", "'").replace("&lt;", "<")
            .replace("&gt;", ">").replace("&amp;", "&"))


def _lane_dotdot(case):
    v = Verdict()
    U = case["module"].encode()
    with core.Scratch() as sc:
        sc.fresh_world({"files": {"other/.keep": ""}})
        r0 = core.run_inv(sc, {"argv": ["--color", "never"], "cwd": "other", "stdin": case["module"], "hashseed": case["hashseed"]})
        v.account(r0, nontrivial=False)
        if r0.exit != 0 or r0.signal:
            v.probe("input-rejected")
            return v
        F = r0.stdout
        r1 = core.run_inv(sc, {"argv": ["--color", "never"], "cwd": "other", "stdin": case["root_body"], "hashseed": case["hashseed"]})
        v.account(r1, nontrivial=False)
        if r1.exit != 0 or r1.signal:
            v.probe("input-rejected")
            return v
        decl = '#[path = "gen/../shared.rs"]\nmod shared;\n'
        root = decl + (r1.stdout.decode() if case["root_clean"] else case["root_body"])
        by = {"unrelated": b"fn  bystander( ){ }\n", "formatted-copy": F, "not-rust": b"this is {{ not rust\n"}[case["bystander"]]
        world = {"files": {"c/src/lib.rs": root, "c/src/gen": {"symlink": "../../other/deep"}, "other/deep/.keep": "",
                           "other/shared.rs": {"b64": _b64(U)}, "c/src/shared.rs": {"b64": _b64(by)}}}
        arg = "$ROOT/c/src/lib.rs" if case["abs"] else "c/src/lib.rs"
        tag = "module-behind-symlinked-dotdot"

        def run(argv, readonly):
            sc.fresh_world(world)
            snap0 = core.snapshot(sc.root)
            r = core.run_inv(sc, {"argv": ["--color", "never"] + argv + [arg], "hashseed": case["hashseed"]})
            v.account(r)
            ab = core.abnormal(r)
            if ab:
                v.add("C06:abnormal|%s|%s" % (tag, ab), "argv=%s status=%s stderr=%r" % (argv, r.status(), core.text_of(r.stderr)[:200]))
            d = core.snap_diff(snap0, core.snapshot(sc.root))
            if readonly and (d or r.muts()):
                v.add("C06:readonly-mode-mutates|%s" % tag, "argv=%s: %s" % (argv, sorted(d)[:3]))
            return r, d
        rf, df = run([], False)
        det = "lib.rs declares #[path = \"gen/../shared.rs\"], gen -> ../../other/deep; bystander (%s) at c/src/shared.rs" % case["bystander"]
        if rf.exit == 0:
            if core.read_rel(sc.root, "c/src/shared.rs") != by:
                v.add("C06:files-mode-touches-unchanged|%s" % tag, "the file at the lexically folded path, which is no part of the crate, was rewritten; " + det)
            if core.read_rel(sc.root, "other/shared.rs") != F:
                v.add("C06:files-vs-stdin-text|%s" % tag, "after plain rustfmt the module other/shared.rs does not hold the text its source gives on standard input; " + det)
        else:
            v.probe("files-mode-error")
        rewrites = rf.exit == 0 and bool(df)
        rc, _ = run(["--check"], True)
        if rf.exit == 0 and not core.text_of(rc.stderr).strip() and rc.exit != (1 if (U != F or not case["root_clean"]) else 0):
            v.add("C06:check-exit-vs-rewrite|%s" % tag, "--check exits %s; the module %s formatting; %s" % (rc.status(), "needs" if U != F else "does not need", det))
        rs, _ = run(["--emit", "stdout"], True)
        if rs.exit == 0 and F not in rs.stdout:
            v.add("C06:stdout-vs-stdin-text|%s" % tag, "--emit stdout does not print the text the module's source gives on standard input; " + det)
        v.probe("symlinked-dotdot-module")
        v.sample = {"lane": "dotdot", "bystander": case["bystander"], "files_exit": rf.exit, "check_exit": rc.exit, "rewrites": rewrites}
    return v


def execute(case):
    if case.get("lane") == "dotdot":
        return _lane_dotdot(case)
    v = Verdict()
    srcs = case["sources"]
    root_rel = case["tree"]["root"]
    with core.Scratch() as sc:
        world = copy.deepcopy(case["world"])
        # step 0: obtain formatted text for the "already formatted" substitution
        sc.fresh_world(world)
        roots = case.get("roots") or [root_rel]
        if case.get("order_swapped"):
            roots = list(reversed(roots))
        r0 = core.run_inv(sc, {"argv": ["--color", "never"] + (case.get("pre_roots") or roots), "hashseed": case["hashseed"]})
        v.account(r0, nontrivial=False)
        if r0.exit != 0 or r0.signal:
            v.probe("input-rejected")
            return v
        linked = case.get("linked") or {}
        st = lambda f: linked.get(f, f)  # where the bytes of a source are stored
        for f in case["preformatted"]:
            world["files"][st(f)] = {"b64": _b64(core.read_rel(sc.root, f))}
        for f in srcs:
            world["files"][st(f)] = {"b64": _b64(_apply_variant(core.file_bytes(world["files"][st(f)]), case["variant"][f]))}
        orig = {f: core.file_bytes(world["files"][st(f)]) for f in srcs}
        if linked:
            v.probe("symlinked-module-file")
        known = set(srcs)
        cwd_abs = sc.root
        single = len(srcs) == 1

        def run(tag, argv, stdin=None, cwd=".", plan=None, fresh=True, readonly=True, allow_abnormal=False):
            if fresh:
                sc.fresh_world(world)
            snap0 = core.snapshot(sc.root)
            inv = {"argv": ["--color", "never"] + argv, "cwd": cwd, "hashseed": case["hashseed"], "plan": plan or []}
            if stdin is not None:
                inv["stdin"] = {"b64": _b64(stdin)}
            r = core.run_inv(sc, inv)
            v.account(r)
            ab = core.abnormal(r)
            if ab and not allow_abnormal:
                v.add("C06:abnormal|%s|%s" % (tag, ab), "%s argv=%s status=%s stderr=%r" % (tag, argv, r.status(), core.text_of(r.stderr)[:300]))
            snap1 = core.snapshot(sc.root)
            d = core.snap_diff(snap0, snap1)
            if readonly:
                # (an ICE report file dropped into the cwd by a panicking process is not a source file)
                muts = [e for e in r.muts() if "rustc-ice" not in e.raw]
                d = {p: x for p, x in d.items() if not os.path.basename(p).startswith("rustc-ice")}
                if muts or d:
                    v.add("C06:readonly-mode-mutates|%s" % tag, "%s argv=%s: %s %s" % (tag, argv, [e.raw for e in muts][:3], sorted(d)[:3]))
            return r, d

        rootargs = [("$ROOT/" + r) if case["abs"] else r for r in roots]
        sf = case["stream_faults"]
        out_plan = {0: None, 1: ["* write 0 @1 short 1,5,17,3"], 2: ["* write 2 @1 eintr 2"], 3: ["* write 0 @1 short 64,1"]}[sf]
        in_plan = {0: None, 1: ["* read 0 @0 short 7,1,30"], 2: ["* read 1 @0 eintr 1"], 3: ["* read 0 @0 short 1"]}[sf]
        if sf:
            v.planned("short" if sf != 2 else "eintr")

        # ---- files mode defines W
        # legal partial writes on the files themselves (and EINTR): the emitter must still store the whole text
        file_plan = {0: None, 1: ["* write 0 * short 5,1,64"], 2: ["* write 1 * eintr 2"], 3: ["* write 0 * short 1"]}[sf]
        rf, df = run("files", rootargs, readonly=False)
        if rf.exit == 0 and rf.stdout.strip():
            v.add("C06:files-mode-prints-to-stdout", "plain rustfmt (files mode, no -l, no -v) printed %r" % core.text_of(rf.stdout)[:160])
        if rf.exit != 0:
            v.probe("files-mode-error")
            return v
        written = {}
        for f in srcs:
            cur = core.read_rel(sc.root, f)
            if cur != orig[f]:
                written[f] = cur
        W = set(written)
        opened_w = {os.path.normpath(e.path) for e in rf.muts() if e.op == "open"}
        if case.get("nested_overlap"):
            # the same file legitimately has two texts here (one per configuration in force), so only the verdicts
            # are comparable: --check fails exactly when plain rustfmt rewrites something
            rc, _ = run("check", ["--check"] + rootargs)
            if not core.text_of(rc.stderr).strip() and rc.exit != (1 if opened_w else 0):
                v.add("C06:check-exit-vs-rewrite|overlapping-inputs", "--check exit %s but plain rustfmt rewrites %s (inputs %s)" % (rc.status(), sorted(opened_w), roots))
            v.probe("nested-overlap")
            v.sample = {"files": sorted(world["files"]), "roots": roots, "rewritten": sorted(opened_w), "check_exit": rc.exit}
            return v
        if opened_w != W:
            v.add("C06:files-mode-write-set", "opened for writing %s but content changed for %s" % (sorted(opened_w), sorted(W)))
        for p, (a, b) in df.items():
            if p not in W and p not in {st(f) for f in W}:
                v.add("C06:files-mode-touches-unchanged", "%s before/after %s %s" % (p, a, b))
        if W:
            v.probe("needs-rewrite")
        else:
            v.probe("already-formatted-world")
        nontrivial = bool(W)

        # ---- stdout: the text T
        rs, _ = run("stdout", ["--emit", "stdout"]+ rootargs, plan=out_plan)
        T = parse_stdout_sections(rs.stdout, cwd_abs, sc.root, known)
        # a file that opts out as a whole (inner skip attribute, ignore, @generated) has no section and is
        # never rewritten; every file that files mode rewrites must have one
        for f in srcs:
            if f in T and f not in W and T[f] != orig[f] and not core.abnormal(rs):
                # files mode leaves the file alone, so what is on disk is its formatted text: stdout prints the same
                v.add("C06:stdout-vs-untouched-file" + ("|line-endings-only" if _eol_only(orig[f], T[f]) else ""),
                      "%s is left alone by files mode (%d bytes on disk) but --emit stdout prints %d other bytes for it" % (f, len(orig[f]), len(T[f])), file=f)
                break
        if not W <= set(T) and not core.abnormal(rs):
            v.add("C06:stdout-sections", "stdout mode printed sections for %s, files mode rewrites %s" % (sorted(T), sorted(W)))
        if known - set(T):
            v.probe("opted-out-file")
        for f in W:
            if f in T and T[f] != written[f]:
                v.add("C06:stdout-vs-files-text", "%s: stdout text (%d bytes) != bytes written by files mode (%d bytes)" % (f, len(T[f]), len(written[f])))
        if sf and any("SHORT" in e.raw or e.fault for e in rs.events):
            v.fired("short" if sf != 2 else "eintr")
        if single:
            rq, _ = run("stdout-q", ["--emit", "stdout", "-q"]+ rootargs)
            if srcs[0] in T and rq.stdout != T[srcs[0]]:
                v.add("C06:stdout-quiet-text", "stdout -q bytes differ from stdout section")
        # ---- files -l
        rl, _ = run("files-l", ["-l"]+ rootargs, readonly=False)
        listed = _names(rl.stdout, cwd_abs, sc.root)
        if listed != sorted(W) and rl.exit == 0:
            v.add("C06:files-l-names", "-l printed %s, files rewritten %s" % (listed, sorted(W)))
        # ---- backup
        if file_plan:
            rff, _ = run("files-shortwrites", rootargs, readonly=False, plan=file_plan)
            for f in srcs:
                cur = core.read_rel(sc.root, f)
                if cur != (written[f] if f in W else orig[f]) and rff.exit == 0:
                    v.add("C06:files-text-under-short-writes", "%s: bytes stored under short/interrupted writes differ from the fault-free files-mode text (exit 0)" % f)
        # a failing file-system call in a writing mode: either an error is reported, or every file holds the
        # complete text -- never "no error reported" together with a file that was not (completely) rewritten
        if W:
            nmut = len([e for e in rf.muts()]) + len([e for e in rf.events if e.op == "write" and e.path and not e.path.startswith("@")])
            for tag, extra, per in (("files", [], 2), ("backup", ["--backup"], 4)):
                kmax = max(1, len(W) * per)
                k = 1 + (case["hashseed"] // 7) % kmax
                en = [28, 5, 13, 30, 21][(case["hashseed"] // 11) % 5]
                re_, _ = run(tag + "-errno", extra + rootargs, readonly=False, plan=["* mut %d * errno %d" % (k, en)])
                v.planned("errno")
                if not any(e.fault for e in re_.events):
                    continue
                v.fired("errno")
                reported = re_.exit != 0 or core.text_of(re_.stderr).strip()
                if not reported:
                    bad = [f for f in W if core.read_rel(sc.root, f) != written[f]]
                    if bad:
                        v.add("C06:silent-io-error|%s" % tag, "errno %d on mutating op %d of `rustfmt %s`: exit 0 and nothing on stderr, yet %s does not hold the formatted text" % (en, k, " ".join(extra), bad[:2]))
        rb, dbk = run("backup", ["--backup"]+ rootargs, readonly=False, plan=file_plan)
        for f in srcs:
            cur = core.read_rel(sc.root, f)
            if cur != (written[f] if f in W else orig[f]):
                v.add("C06:backup-vs-files-text", "%s after --backup differs from plain files mode" % f)
        # ---- check
        rc, _ = run("check", ["--check"]+ rootargs, plan=out_plan)
        if not core.text_of(rc.stderr).strip():
            want = 1 if W else 0
            if rc.exit != want:
                v.add("C06:check-exit-vs-rewrite", "--check exit %s but plain rustfmt rewrites %s" % (rc.status(), sorted(W)))
        dchunks, nlonly = parse_diff(core.text_of(rc.stdout), cwd_abs, sc.root, known)
        for f in srcs:
            if f not in T:
                continue
            want_lines = lines_of(T[f])
            got = apply_chunks(lines_of(_strip_bom(orig[f])), dchunks.get(f, []))
            if got != want_lines:
                v.add("C06:diff-report-vs-text", "%s: diff applied to the original does not give the formatted lines" % f)
            if f in W and f not in dchunks and f not in nlonly:
                v.add("C06:check-silent-on-rewritten-file", "%s would be rewritten but --check printed nothing for it" % f)
            if f not in W and (f in dchunks or f in nlonly):
                v.add("C06:check-reports-unchanged-file", "%s is left alone by files mode but reported by --check" % f)
        # the result channel itself fails (reader gone / disk full): whatever rustfmt does then, it must not
        # report success for files that need rewriting
        if W:
            en = [32, 28, 5][case["hashseed"] % 3]
            for tag, extra in (("check-l-stdout-error", ["--check", "-l"]), ("check-stdout-error", ["--check"]), ("files-l-stdout-error", ["-l"])):
                ro = tag != "files-l-stdout-error"
                rse, _ = run(tag, extra + rootargs, plan=["* write 1 @1 errno %d" % en], readonly=ro, allow_abnormal=True)
                v.planned("stdout-errno")
                if any(e.fault for e in rse.events):
                    v.fired("stdout-errno")
                    if rse.exit == 0 and rse.signal is None and not core.text_of(rse.stderr).strip():
                        if ro or any(core.read_rel(sc.root, f) != written[f] for f in W):
                            v.add("C06:silent-stdout-error|%s" % tag, "write to stdout failed with errno %d, yet exit 0 and nothing on stderr although %s need(s) rewriting" % (en, sorted(W)[:2]))
        # --check wins over an emit mode given as a configuration override: still read-only, same verdict
        rco, _ = run("check-config-emit", ["--check", "--config", "emit_mode=%s" % ["Files", "Stdout", "Json"][case["hashseed"] % 3]] + rootargs)
        if not core.text_of(rco.stderr).strip() and rco.exit != (1 if W else 0):
            v.add("C06:check-exit-vs-rewrite|config-emit_mode", "--check --config emit_mode=..: exit %s, files mode rewrites %s" % (rco.status(), sorted(W)))
        rcl, _ = run("check-l", ["--check", "-l"]+ rootargs)
        if _names(rcl.stdout, cwd_abs, sc.root) != sorted(W) and not core.text_of(rcl.stderr).strip():
            v.add("C06:check-l-names", "--check -l printed %s, files rewritten %s" % (_names(rcl.stdout, cwd_abs, sc.root), sorted(W)))
        if not core.text_of(rcl.stderr).strip() and rcl.exit != (1 if W else 0):
            v.add("C06:check-exit-vs-rewrite|-l", "--check -l exit %s, rewritten %s" % (rcl.status(), sorted(W)))
        # ---- json
        rj, _ = run("json", ["--emit", "json"]+ rootargs, plan=out_plan)
        _judge_json(v, rj.stdout, "json", srcs, orig, T, cwd_abs, sc.root, W=W)
        # ---- checkstyle
        rx, _ = run("checkstyle", ["--emit", "checkstyle"]+ rootargs)
        _judge_checkstyle(v, rx.stdout, "checkstyle", srcs, T, cwd_abs, sc.root)
        xtext = core.text_of(rx.stdout)
        for f in sorted(W):
            mm = [m for m in re.finditer(r'<file name="([^"]*)">(.*?)</file>', xtext, re.S)
                  if os.path.relpath(os.path.normpath(os.path.join(cwd_abs, xml_unescape(m.group(1)))), sc.root) == f]
            # (checkstyle lists expected lines only: a rewrite that merely deletes lines has no entry by design; a
            # rewrite of every line ending must have some)
            if f in T and not core.abnormal(rx) and _eol_only(orig[f], T[f]) and not any("<error " in m.group(2) for m in mm):
                v.add("C06:report-silent-on-rewritten-file|checkstyle" + ("|line-endings-only" if _eol_only(orig[f], T[f]) else ""),
                      "%s is rewritten by files mode but the checkstyle report has no entry for it" % f, file=f)
                break
        # ---- modified lines (single file: one unnamed report)
        if single:
            rm, _ = run("modified", ["--config", "emit_mode=ModifiedLines"]+ rootargs)
            ch = parse_modified_lines(core.text_of(rm.stdout))
            f = srcs[0]
            if ch is None:
                v.add("C06:modified-lines-unparsable", core.text_of(rm.stdout)[:200])
            elif f in T and apply_chunks(lines_of(_strip_bom(orig[f])), ch) != lines_of(T[f]):
                v.add("C06:modified-lines-vs-text", "%s: modified-lines report applied to the original does not give the formatted lines" % f)
            elif f in T and f in W and not ch and not core.abnormal(rm):
                v.add("C06:report-silent-on-rewritten-file|modified-lines" + ("|line-endings-only" if _eol_only(orig[f], T[f]) else ""),
                      "%s is rewritten by files mode but the modified-lines report is empty" % f, file=f)
        # ---- coverage: read-only oracle only
        run("coverage", ["--emit", "coverage"]+ rootargs)
        # ---- stdin lane
        for f in ([] if single else case.get("leafroots") or []):
            # one-file inputs of a longer command line: the same source on standard input, from its own directory
            if f not in T or core.abnormal(rs):
                continue
            ri, _ = run("stdin", [], stdin=orig[f], cwd=os.path.dirname(f))
            if ri.exit == 0 and ri.stdout != T[f]:
                v.add("C06:stdin-vs-path-text|one-of-several-inputs", "%s: text for the source on stdin (%d bytes) != text for the path as one of the inputs %s (%d bytes)"
                      % (f, len(ri.stdout), roots, len(T[f])), file=f)
            v.probe("stdin-vs-one-of-several-inputs")
        if single:
            f = srcs[0]
            d = os.path.dirname(f)
            ri, _ = run("stdin", [], stdin=orig[f], cwd=d, plan=in_plan)
            if f in T and ri.exit != 0 and not core.abnormal(ri):
                v.add("C06:stdin-rejected-but-path-accepted", "%s formats as a path but fails on stdin (exit %s, stderr %r)" % (f, ri.status(), core.text_of(ri.stderr)[:160]))
            if f in T and ri.stdout != T[f] and ri.exit == 0:
                v.add("C06:stdin-vs-path-text", "%s: text for the source on stdin (%d bytes) != text for the path (%d bytes)" % (f, len(ri.stdout), len(T[f])))
            if sf and any("SHORT" in e.raw or e.fault for e in ri.events):
                v.fired("short" if sf != 2 else "eintr")
            rij, _ = run("stdin-json", ["--emit", "json"], stdin=orig[f], cwd=d)
            if f in T:
                _judge_json(v, rij.stdout, "stdin-json", srcs, orig, T, cwd_abs, sc.root, stdin_file=f)
            ric, _ = run("stdin-check", ["--check"], stdin=orig[f], cwd=d)
            if f not in T and rs.exit == 0 and not core.abnormal(rij) and not core.abnormal(ric):
                # a source that opts out as a whole: the plain stdin run echoes it (that is its text); the report
                # modes have nothing to report, exactly as for the same source given as a path
                try:
                    ok = json.loads(core.text_of(rij.stdout) or "null") == []
                except ValueError:
                    ok = False
                if not ok:
                    v.add("C06:stdin-report-not-a-report|json", "%s opts out: --emit json on stdin printed %r instead of an empty report" % (f, core.text_of(rij.stdout)[:120]))
                if ric.stdout.strip():
                    v.add("C06:stdin-report-not-a-report|check", "%s opts out: --check on stdin printed %r" % (f, core.text_of(ric.stdout)[:120]))
                v.probe("opted-out-source-on-stdin")
            dch, nlo = parse_diff(core.text_of(ric.stdout).replace("Diff in <stdin>:", "Diff in %s:" % os.path.basename(f)),
                                  os.path.join(sc.root, d), sc.root, known)
            if f in T and apply_chunks(lines_of(_strip_bom(orig[f])), dch.get(f, [])) != lines_of(T[f]):
                v.add("C06:stdin-diff-vs-text", "%s: stdin --check diff does not reconstruct the formatted lines" % f)
        # ---- histories
        # check -> format -> check
        h1, _ = run("h:check", ["--check"]+ rootargs)
        h2, _ = run("h:format", rootargs, fresh=False, readonly=False)
        h3, _ = run("h:check2", ["--check"]+ rootargs, fresh=False)
        # format -> format : the relation "check after format is 0 iff second format writes nothing"
        h4, d4 = run("h:format2", rootargs, fresh=False, readonly=False)
        second_writes = bool(h4.muts())
        if not core.text_of(h3.stderr).strip() and not core.text_of(h4.stderr).strip():
            if (h3.exit == 0) != (not second_writes):
                v.add("C06:history-check-vs-second-format", "after format: --check exit %s, second format mutating ops %s" % (h3.status(), [e.raw for e in h4.muts()][:3]))
        if h1.exit != rc.exit or h1.stdout != rc.stdout:
            v.add("C06:check-not-repeatable", "two --check runs on identical fresh worlds differ")
        v.probe("history:check-format-check-format")
        if not nontrivial:
            v.sigs = set(list(v.sigs)[:1])
        v.sample = {"files": sorted(world["files"]), "variants": case["variant"], "preformatted": case["preformatted"],
                    "W": sorted(W), "check_exit": rc.exit, "stream_faults": sf}
    return v


def _eol_only(a, b):
    """two texts that differ in their line endings (and a BOM) only"""
    norm = lambda t: _strip_bom(t).replace(b"\r\n", b"\n")
    return a != b and norm(a) == norm(b)


def _judge_json(v, out, tag, srcs, orig, T, cwd_abs, root_abs, stdin_file=None, W=None):
    try:
        doc = json.loads(out.decode("utf-8"))
    except ValueError:
        v.add("C06:json-malformed|%s" % tag, repr(out[:200]))
        return
    by = {}
    for ent in doc:
        name = ent["name"]
        if stdin_file is not None:
            rel = stdin_file
        else:
            rel = os.path.relpath(os.path.normpath(os.path.join(cwd_abs, name)), root_abs)
        chunks = []
        for m in ent["mismatches"]:
            removed = m["original"].count("\n")  # every removed / expected line is pushed with a "\n"
            new = m["expected"].split("\n")[:-1]
            chunks.append((m["original_begin_line"], removed, new))
        by[rel] = chunks
    for f in srcs:
        if f not in T:
            continue
        got = apply_chunks(lines_of(_strip_bom(orig[f])), by.get(f, []))
        if got != lines_of(T[f]):
            v.add("C06:json-report-vs-text|%s" % tag, "%s: json mismatches applied to the original do not give the formatted lines" % f)
        elif W is not None and f in W and not by.get(f):
            # the report implies "nothing to change" for a file that files mode rewrites
            v.add("C06:report-silent-on-rewritten-file|json" + ("|line-endings-only" if _eol_only(orig[f], T[f]) else ""),
                  "%s is rewritten by files mode (%d -> %d bytes) but the json report lists no mismatch for it" % (f, len(orig[f]), len(T[f])), file=f)


def _judge_checkstyle(v, out, tag, srcs, T, cwd_abs, root_abs):
    text = out.decode("utf-8", "replace")
    for m in re.finditer(r'<file name="([^"]*)">(.*?)</file>', text, re.S):
        rel = os.path.relpath(os.path.normpath(os.path.join(cwd_abs, xml_unescape(m.group(1)))), root_abs)
        if rel not in T:
            continue
        tl = lines_of(T[rel])
        for e in re.finditer(r'<error line="(\d+)" severity="warning" message="Should be `(.*?)`" />', m.group(2), re.S):
            n = int(e.group(1))
            msg = xml_unescape(e.group(2))
            if n < 1 or n > len(tl) or tl[n - 1] != msg:
                v.add("C06:checkstyle-vs-text", "%s: line %d reported as %r, formatted text has %r" % (rel, n, msg[:60], (tl[n - 1] if 1 <= n <= len(tl) else None)))
                return


def _names(out, cwd_abs, root_abs):
    res = []
    for line in out.decode("utf-8", "replace").split("\n"):
        if line.startswith("Incorrect newline style in "):
            line = line[len("Incorrect newline style in "):]
        if line.strip():
            res.append(os.path.relpath(os.path.normpath(os.path.join(cwd_abs, line.strip())), root_abs))
    return sorted(res)


def _inv(case, argv, root_rel):
    return {"argv": ["--color", "never"] + argv + [root_rel], "hashseed": case["hashseed"]}


def _b64(b):
    import base64
    return base64.b64encode(b).decode()


def shrinks(case):
    if case.get("lane") == "dotdot":
        return
    if case["stream_faults"]:
        c = copy.deepcopy(case); c["stream_faults"] = 0; yield c
    if case["abs"]:
        c = copy.deepcopy(case); c["abs"] = False; yield c
    for f in list(case["world"]["files"]):
        if f.endswith("rustfmt.toml"):
            c = copy.deepcopy(case); del c["world"]["files"][f]; yield c
    for f in case["sources"]:
        if case["variant"][f] != "lf":
            c = copy.deepcopy(case); c["variant"][f] = "lf"; yield c
    if case["preformatted"]:
        for f in case["preformatted"]:
            c = copy.deepcopy(case); c["preformatted"] = [g for g in case["preformatted"] if g != f]; yield c
    for f in case["sources"]:
        txt = core.file_bytes(case["world"]["files"][f]).decode("utf-8", "replace")
        if len(case["sources"]) == 1 and txt != gen_rust.tiny_unformatted("s"):
            c = copy.deepcopy(case); c["world"]["files"][f] = gen_rust.tiny_unformatted("s"); yield c
