"""C16 -- rustfmt never terminates abnormally.

Real processes only (an in-process harness sees unwinds, not aborts, stack overflows or signals).
Lane B: fixture corpus x stored-byte corruption (token-level) x swarm configuration x delivery
(root file / out-of-line module / stdin) x nesting amplifier.  Lane C: injected panics at the
catch_unwind containment boundaries.
"""
import copy
import json
import os
import re

from .. import core, gen_config, gen_rust, prng, rustlex
from ..engine import Verdict

core.PROC_TIMEOUT = float(os.environ.get("VERIF_C16_TIMEOUT", "20"))

ID = "C16"
LEVEL = "exploration"
RULE = ("lane B: one of ~1840 real source files (tests/source, tests/target, src) x 0-3 token-level mutations (delete, "
        "duplicate, swap, truncate incl. mid-token, delimiter imbalance, non-ASCII insertion) and/or an arbitrary re-layout "
        "(all whitespace redrawn, breaks inserted at token boundaries) x swarm configuration "
        "[lane D: a valid input whose k-th mutating file-system call fails in files / backup mode] "
        "(max_width 20..200 and >= 5*tab_spaces, tab_spaces 1..8, hard_tabs, style edition, error_on_line_overflow / "
        "error_on_unformatted always drawn, up to 6 more options) x delivery (root path, out-of-line module of a tiny "
        "root, stdin) x nesting amplifier (<= 32 levels); lane C: injected panic at each of the seven containment sites "
        "(n = 1..3). Monitor: exit status in {0,1}, no signal, no 'panicked at' / ICE / stack overflow on stderr, no "
        "rustc-ice file. A process still running after the per-process cap is inconclusive, never a violation. "
        "distinct_nontrivial = distinct (exit class, first stderr line class, mutation kinds, delivery) signatures.")
ASSUMPTIONS = [
    "violations are keyed by panic site (file:line of the panic message) so that a listed finding never hides a new site",
    "timeouts are not oracles: a process exceeding the cap is counted as inconclusive",
    "dev profile (debug assertions, overflow checks) as used by the pinned test suite",
]
COMPONENTS = {
    "rustfmt": "real process (rebuilt from /repo working tree, dev profile, --cfg rustfmt_verif)",
    "stored source bytes": "simulated corruption (token-level mutation of fixture files)",
    "parser / macro panics": "injected through cfg(rustfmt_verif) fault points (lane C)",
    "file system": "real tmpfs behind the simfs interposer", "hash seed": "simulated",
}
EXTRA_OPTS = {
    "error_on_line_overflow": [True, False], "error_on_unformatted": [True, False],
    "format_code_in_doc_comments": [True, False], "format_macro_matchers": [True, False],
    "format_macro_bodies": [True, False], "wrap_comments": [True, False], "normalize_comments": [True, False],
    "format_strings": [True, False], "use_small_heuristics": ["Default", "Max", "Off"],
    "indent_style": ["Block", "Visual"], "imports_granularity": ["Preserve", "Crate", "Module", "Item", "One"],
    "group_imports": ["Preserve", "StdExternalCrate", "One"], "reorder_impl_items": [True, False],
    "struct_field_align_threshold": [0, 20, 60], "enum_discrim_align_threshold": [0, 20, 60],
    "match_arm_blocks": [True, False], "force_multiline_blocks": [True, False], "fn_single_line": [True, False],
    "where_single_line": [True, False], "overflow_delimited_expr": [True, False], "combine_control_expr": [True, False],
    "brace_style": ["AlwaysNextLine", "PreferSameLine", "SameLineWhere"],
    "control_brace_style": ["AlwaysSameLine", "ClosingNextLine", "AlwaysNextLine"],
    "fn_params_layout": ["Compressed", "Tall", "Vertical"], "trailing_comma": ["Always", "Never", "Vertical"],
    "comment_width": [20, 40, 80, 120], "doc_comment_code_block_width": [20, 60, 100],
    "inline_attribute_width": [0, 30, 80], "short_array_element_width_threshold": [0, 10, 40],
    "blank_lines_upper_bound": [0, 1, 4], "blank_lines_lower_bound": [0, 1], "newline_style": ["Unix", "Windows", "Auto"],
    "normalize_doc_attributes": [True, False], "condense_wildcard_suffixes": [True, False],
    "hex_literal_case": ["Preserve", "Upper", "Lower"], "match_block_trailing_comma": [True, False],
    "imports_layout": ["Vertical", "Horizontal", "HorizontalVertical", "Mixed"], "imports_indent": ["Block", "Visual"],
    "space_before_colon": [True, False], "spaces_around_ranges": [True, False], "binop_separator": ["Front", "Back"],
    "type_punctuation_density": ["Compressed", "Wide"], "struct_lit_single_line": [True, False],
    "empty_item_single_line": [True, False], "remove_nested_parens": [True, False], "merge_derives": [True, False],
    "use_try_shorthand": [True, False], "use_field_init_shorthand": [True, False], "force_explicit_abi": [True, False],
    "skip_children": [True, False], "disable_all_formatting": [False, False, True],
    "format_generated_files": [True, False], "generated_marker_line_search_limit": [0, 1, 5],
    # control options: they change how rustfmt operates rather than the layout, and are accepted in any config
    "emit_mode": ["Files", "Stdout", "Coverage", "Checkstyle", "Json", "ModifiedLines", "Diff"],
    "make_backup": [True, False], "print_misformatted_file_names": [True, False],
    "verbose": ["Normal", "Verbose", "Quiet"], "color": ["Always", "Never", "Auto"],
    "unstable_features": [True, False], "show_parse_errors": [True, False], "hide_parse_errors": [True, False],
    "required_version": ["1.8.0", "*", ">=1.0.0"],
}
CONTROL_OPTS = ["emit_mode", "make_backup", "print_misformatted_file_names", "verbose", "color", "unstable_features",
                "show_parse_errors", "hide_parse_errors", "required_version"]
SITES = ["parser_new", "parse_crate_mod", "parse_file_as_module", "rewrite_macro", "format_snippet", "parse_cfg_if"]
_corpus = None


def corpus():
    global _corpus
    if _corpus is None:
        c = list(gen_rust.corpus())
        top = os.path.join(core.REPO, "src")
        for dp, dns, fns in os.walk(top):
            dns.sort()
            for fn in sorted(fns):
                if fn.endswith(".rs"):
                    p = os.path.join(dp, fn)
                    c.append((os.path.relpath(p, core.REPO), p))
        _corpus = c
    return _corpus


def draw_config(rng):
    tab = rng.range(1, 8)
    lo = max(20, 5 * tab)
    mw = rng.choice([lo, lo + rng.below(20), rng.range(lo, 200), rng.range(lo, 200), 100, 200])
    opts = {"max_width": mw, "tab_spaces": tab}
    if rng.chance(30):
        opts["hard_tabs"] = True
    if rng.chance(50):
        opts["style_edition"] = rng.choice(["2015", "2018", "2021", "2024"])
    if rng.chance(30):
        opts["edition"] = rng.choice(["2015", "2018", "2021", "2024"])
    opts["error_on_line_overflow"] = rng.chance(50)
    opts["error_on_unformatted"] = rng.chance(40)
    names = sorted(EXTRA_OPTS)
    for k in rng.sample(names, rng.range(0, 6)):
        opts[k] = rng.choice(EXTRA_OPTS[k])
    if rng.chance(20):
        for k in rng.sample(CONTROL_OPTS, rng.range(1, 2)):
            opts[k] = rng.choice(EXTRA_OPTS[k])
    # explicit width options stay within the page (an accepted configuration)
    if rng.chance(25):
        for k in rng.sample(gen_config.WIDTHS, rng.range(1, 3)):
            opts[k] = rng.range(0, mw)
    return opts


USE_LEAVES = ["a", "b::c", "self", "*", "d as e", "_f as _", "r#g", "super::h", "crate::i", "{}", "j::{}", "k::{self}",
              "l::{m, n}", "o::{p::{q, r}, s}", "t::{}", "{u, v}", "w::*", "x::{self as y}", "z::{*}"]


def gen_use_group(rng):
    """a run of use declarations with legal but unusual shapes"""
    out = []
    for _ in range(rng.range(2, 7)):
        vis = rng.choice(["", "", "pub ", "pub(crate) "])
        lead = rng.choice(["", "", "::"])
        root = rng.choice(["", "", "std::", "crate::", "a::", "a::b::", "c::"])
        leafs = rng.sample(USE_LEAVES, rng.range(1, 4))
        body = leafs[0] if len(leafs) == 1 and rng.chance(60) else "{%s}" % ", ".join(leafs)
        if root == "" and body in ("*", "self") or (lead and root in ("crate::", "")):
            body = "{%s}" % body if body in ("*",) else body
            lead = ""
        attr = rng.choice(["", "", "", "#[cfg(unix)]\n", "// note\n", "#[allow(unused)] "])
        out.append("%s%suse %s%s%s;\n" % (attr, vis, lead, root, body))
        if rng.chance(15):
            out.append("\n")
    return "".join(out)


def gen_cycle(rng):
    """module files that include each other in a circle (or a file that includes itself); links are spelled plainly,
    with `./`, or with a `../<dir>/` detour.  The compiler rejects such a crate; the formatter merely has to survive
    it (status 0 or 1).  The directory name is long so that a chain of detours meets the path length limit quickly."""
    d = "w_" + "".join(rng.choice("abcdefghijklmnopqrstuvwxyz") for _ in range(rng.range(30, 44)))
    n = rng.choice([1, 2, 2, 3])
    names = ["main.rs"] + ["cy%d.rs" % i for i in range(1, n)]
    files = {}
    for i, nm in enumerate(names):
        nxt = names[(i + 1) % n]
        sp = rng.choice(["plain", "dot", "dotdot", "dotdot"])
        p = {"plain": nxt, "dot": "./" + nxt, "dotdot": "../%s/%s" % (d, nxt)}[sp]
        decl = '#[path = "%s"]\nmod nx%d;\n' % (p, i)
        form = rng.below(10)
        if form == 0:
            decl = "cfg_if::cfg_if! {\n    if #[cfg(unix)] {\n        %s    }\n}\n" % decl.replace("\n", "\n        ", 1)
        elif form == 1:
            decl = '#[cfg_attr(unix, path = "%s")]\nmod nx%d;\n' % (p, i)
        files["%s/%s" % (d, nm)] = decl + gen_rust.tiny_unformatted("c%d" % i)
    return d, files


# lane S: small sources around constructs whose layout code does arithmetic on widths or offsets (generic bounds that
# cannot be broken, where clauses, qualified paths, comments with list items or custom openers, string literals,
# comments deep inside nested blocks), on the narrowest usable pages, with white space redrawn from the characters
# the lexer and / or Unicode call white space
S_SNIPPETS = [
    "enum E<T> where T: std::iter::IntoIterator<Item = u8> { A(T), B }\n",
    "enum Eg<T: some::quite::long::path::to::a::Trait<Assoc = u8> + Other> { A(T) }\n",
    "pub enum Ed<T = std::collections::HashMap<String, Vec<u8>>> { A(T), B { x: T } }\n",
    "struct Sg<T> where T: std::iter::IntoIterator<Item = u8> { a: T }\n",
    "type A = <S as G>::R<T>;\n",
    "fn q() { let _ = <S as G>::r::<T>(); let _ = <Vec<u8> as IntoIterator>::into_iter(v); }\n",
    "trait Tr /* c */ <T> {}\ntrait Tr2<T> /* d */ : Sized {}\n",
    "// a comment\n \nfn after_blank() {}\n",
    "fn body() {\n    a(); // trailing\n \n    b();\n    /* block */\n \n    c();\n}\n",
    "//   - item one of a list that goes on for a while and needs to be wrapped somewhere\n//   - item two\nfn li() {}\n",
    "///   * item one of a documented list that goes on and on and on for a long while\n///   * two\nfn ld() {}\n",
    "//→→→→→→ word word word word word word word word word word word word x\n//→→→→→→ next line\nfn co() {}\n",
    "//!!!! banner word word word word word word word word word word word word word\nfn bn() {}\n",
    "fn st() { let s = \"abc\"; let t = \"a long string literal that will have to be broken somewhere along the line\"; }\n",
    "fn deep() { loop { loop { loop { loop { loop { // comment\n b(); } } } } } }\n",
    "fn deeper() { if a { if b { if c { if d { if e { if f { /* c */ g(); // t\n } } } } } } }\n",
    "mod m1 { mod m2 { mod m3 { mod m4 { fn f<T>() where T: Sized {} } } } }\n",
    "impl X { fn f() { if a { fn g<T>() where T: Sized + Clone {} } } }\n",
    "fn ch() { let x = some.long().chain().of().method().calls().that().goes().on(); }\n",
    "macro_rules! mm { ($a:ident) => { fn $a() { let v = 1; } }; }\n",
    "impl Tr for S { reuse a::b; reuse c::d { self.0 } }\ntrait Tq { reuse x::y; }\n",
    "fn tr() { try!().z; let _ = try!(;).z(); let _ = try!(,)?; let _ = r#try!(a).b; }\n",
    "fn md() { if a { if b { if c { macro_rules! deep { () => { 1 }; ($x:expr) => { $x + 1 }; } } } } }\n",
    "fn cv() {\n    a(); // caf\u00e9 \u2603\n}\nfn cw() { b() /* \u00e9\u00e9 */ }\n",
    "struct Al {\n    a: u8  , // \u00e9\u00e9\u00e9\u00e9\n\n    bb: u16, // x\n}\nfn al() { let _ = Al { a: 1  , // \u00e9\u00e9\n\n        bb: 2 }; }\n",
    "extern \"a\\nb\" { fn f(); }\nextern \"C\" { fn g(); }\n",
    "extern \"C\\\n\" { fn f(); }\nunsafe extern r\"a\nb\" {}\n",
    "fn lg() {\n    a();\n    // " + "\u00e9" * 31 + " words words words\n    b(); /* " + "\u2603" * 17 + " */\n    c();\n}\n",
    "#[rustfmt]\nfn ra() {}\n#[rustfmt::skip::other]\nfn rb() { #[rustfmt] let x = 1; }\nmod rq { #![rustfmt] }\n#[clippy]\nstruct Rc;\n",
    "#[rustfmt::skip::macros]\nfn rc() {}\n#[rustfmt::skip::attributes(derive)]\n#[derive( Debug )]\n#[rustfmt(skip)]\nstruct Rd;\n#[rustfmt::]\nfn re() {}\n",
    "#[cfg(any())] const FX: f32 = 0b1f32;\nfn fl() { let x = 0o7f64; let s = 0b1f32..; let t = 1.0f32; let u = 2.; }\n",
]
LEX_WS = ["\u0085", "\u200e", "\u200f", "\u2028", "\u2029"]      # white space for the lexer (Pattern_White_Space)
UNI_WS = ["\u3000", "\u00a0", "\u2003", "\u1680", "\u2028", "\u2029", "\u0085"]  # Unicode White_Space


def gen_seeded(rng):
    text = "".join(rng.sample(S_SNIPPETS, rng.range(1, 3))) if not rng.chance(4) else ""
    desc = []
    if rng.chance(70):
        # blanks become (or gain) other white space; in code only what the lexer accepts keeps the text parsable
        chars = list(text)
        pos = [i for i, ch in enumerate(chars) if ch == " "]
        for i in rng.sample(pos, min(len(pos), rng.range(1, 3))):
            line_start = text.rfind("\n", 0, i) + 1
            in_comment = "//" in text[line_start:i] or "/*" in text[line_start:i]
            ws = rng.choice(UNI_WS + LEX_WS if in_comment else LEX_WS)
            chars[i] = ws if rng.chance(50) else rng.choice([ws + " ", " " + ws, ws + ws])
        text = "".join(chars)
        desc.append("wide-space")
    if rng.chance(25):
        text = text.replace('"abc"', rng.choice(['"abc"é', '"abc"suffix', 'b"abc"ß', 'r"abc"é']))
        desc.append("literal-suffix")
    if rng.chance(30):
        text, d2 = rustlex.mutate(rng, text, 1)
        desc += d2
    tab = rng.range(1, 8)
    lo = max(20, 5 * tab)
    cfg = {"max_width": rng.choice([lo, lo, lo + rng.below(12), rng.range(lo, 60), 100]), "tab_spaces": tab}
    for k, vals in (("indent_style", ["Visual", "Visual", "Block"]), ("wrap_comments", [True, True, False]),
                    ("format_strings", [True, True, False]), ("normalize_comments", [True, False]),
                    ("comment_width", [20, 40, 80]), ("hard_tabs", [True, False]), ("where_single_line", [True, False]),
                    ("brace_style", ["AlwaysNextLine", "PreferSameLine", "SameLineWhere"]),
                    ("error_on_line_overflow", [True, False]), ("error_on_unformatted", [True, False]),
                    ("blank_lines_upper_bound", [0, 1, 4, 18446744073709551615]),
                    ("blank_lines_lower_bound", [0, 1]), ("use_try_shorthand", [True, True, False]), ("float_literal_trailing_zero", ["Always", "IfNoPostfix", "Never", "Preserve"]),
                    ("struct_field_align_threshold", [0, 20, 60]), ("format_macro_bodies", [True, False])):
        if rng.chance(45):
            cfg[k] = rng.choice(vals)
    return text, desc, cfg


def gen_cfg_macro(rng):
    """a tiny root file around one `cfg_if!` / `cfg_match!` call (the two macros whose bodies the module resolver parses
    itself), damaged at token level.  Tiny means: a process that has not finished within the cap is not slow, it hangs"""
    items = ["mod ta;", "mod tb;", "fn f() {}", "use a::b;", "pub mod tc;", '#[path = "ta.rs"] mod td;', "struct S;",
             "mod inl { mod ta; }", "const X: u8 = 1;"]

    def block():
        return "{\n        " + "\n        ".join(rng.choice(items) for _ in range(rng.range(0, 3))) + "\n    }"
    conds = ["unix", "windows", 'feature = "x"', 'target_os = "linux"', "test"]
    if rng.chance(60):
        s = "%s! {\n    if #[cfg(%s)] %s" % (rng.choice(["cfg_if::cfg_if", "cfg_if"]), rng.choice(conds), block())
        for _ in range(rng.below(3)):
            s += " else if #[cfg(%s)] %s" % (rng.choice(conds), block())
        if rng.chance(70):
            s += " else %s" % block()
        s += "\n}\n"
    else:
        s = "%s! {\n" % rng.choice(["std::cfg_match", "cfg_match"])
        for _ in range(rng.range(1, 3)):
            c = rng.choice(conds)
            s += "    %s => %s\n" % (rng.choice([c, "cfg(%s)" % c]), block())
        if rng.chance(70):
            s += "    _ => %s\n" % block()
        s += "}\n"
    text = rng.choice(["", "fn  before( ){ }\n"]) + s + rng.choice(["", "fn  after( ){ }\n"])
    text, desc = rustlex.mutate(rng, text, rng.range(0, 2))
    if rng.chance(50):
        # a stray token that cannot start an item, at a token boundary
        toks = rustlex.tokens(text)
        k = rng.below(len(toks) + 1)
        toks.insert(k, ("punct", " %s " % rng.choice(["1", "+", ";", '"s"', "=>", "'a'", "..", "0.5", "?", "@"])))
        text = "".join(t for _, t in toks)
        desc = desc + ["stray-token"]
    return text, desc


def generate(rng, tier):
    pr = prng.Rng(prng.mix(rng.seed, "c16-reader-gone"))  # a side stream: the main stream stays what it was
    if pr.chance(3):
        # lane P: the reader of standard output has gone away (EPIPE, and SIGPIPE for a process that does not ignore
        # it) when the result of a source given on standard input is printed
        return {"lane": "P", "text": gen_rust.unformatted(pr, 1 + pr.below(3)), "nth": pr.choice([1, 1, 2]),
                "emit": pr.choice([[], [], ["--emit", "stdout"], ["-l"], ["--emit", "json"], ["--emit", "checkstyle"]]),
                "hashseed": pr.below(1 << 32)}
    if rng.chance(6) or os.environ.get("VERIF_C16_LANE") == "S":  # (the variable: a deeper look at this lane by hand)
        text, desc, cfg = gen_seeded(rng)
        return {"lane": "B", "source": "seeded-constructs", "text": text, "mutations": desc or ["none"], "depth": 0, "badutf8": False,
                "delivery": rng.choice(["root", "root", "stdin", "module"]), "config": cfg, "hashseed": rng.below(1 << 32),
                "via": rng.choice(["file", "cli"]), "emit": rng.choice([[], ["--check"], ["--emit", "stdout"], ["--emit", "coverage"]]),
                "term": "dumb", "log": rng.choice([None] * 5 + ["debug", "trace", "rustfmt_nightly::missed_spans=debug"]),
                "filelines": rng.choice([None] * 6 + ["empty", "range"]), "flrange": [rng.range(1, 6), rng.range(1, 12)]}
    if rng.chance(4):
        text, desc = gen_cfg_macro(rng)
        return {"lane": "T", "text": text, "mutations": desc, "emit": rng.choice([[], ["--check"], ["--emit", "stdout"]]),
                "hashseed": rng.below(1 << 32)}
    lane = "C" if rng.chance(12) else ("G" if rng.chance(10) else ("D" if rng.chance(6) else ("Y" if rng.chance(3) else "B")))
    if lane == "B" and rng.chance(4):
        # several inputs on one command line, some from the same directory, with per-directory configurations some of
        # which cannot be loaded (bad TOML, bad value, unreadable): each input ends in a result or a diagnostic
        files, plan, args = {}, [], []
        for di in range(rng.range(1, 3)):
            d = "m%d" % di
            k = rng.below(6)
            if k == 0:
                files[d + "/rustfmt.toml"] = "max_width = \n"
            elif k == 1:
                files[d + "/.rustfmt.toml"] = 'tab_spaces = "wide"\n'
            elif k == 2:
                files[d + "/rustfmt.toml"] = "max_width = 80\n"
                plan.append("* %s 0 %s/rustfmt.toml errno %d" % (rng.choice(["open", "read", "stat"]), d, rng.choice([13, 5])))
            elif k == 3:
                files[d + "/rustfmt.toml"] = 'required_version = "0.0.1"\n'
            elif k == 4:
                files[d + "/rustfmt.toml"] = "max_width = %d\nunknown_option = 1\n" % rng.choice([40, 100])
            for fi in range(rng.range(1, 3)):
                p = "%s/f%d.rs" % (d, fi)
                files[p] = gen_rust.unformatted(rng, 1) if rng.chance(80) else "fn broken( {\n"
                args.append(p)
        return {"lane": "M", "files": files, "plan": plan, "args": rng.shuffle(args) if rng.chance(50) else args,
                "emit": rng.choice([[], ["--check"], ["--emit", "stdout"], ["-l"]]), "hashseed": rng.below(1 << 32)}
    if lane == "Y":
        d, files = gen_cycle(rng)
        return {"lane": "Y", "dir": d, "files": files, "emit": rng.choice([[], ["--check"], ["--emit", "stdout"], ["--backup"]]),
                "spelling": rng.choice(["rel", "abs", "cwd"]), "hashseed": rng.below(1 << 32)}
    if lane == "D":
        # an ordinary, valid input whose result cannot be stored: the k-th mutating file-system call fails
        return {"lane": "D", "text": gen_rust.unformatted(rng, 2), "backup": rng.chance(50), "k": rng.range(1, 4),
                "errno": rng.choice([28, 13, 5, 30, 21, 122]), "module": rng.chance(40), "hashseed": rng.below(1 << 32)}
    if lane == "G":
        text = gen_use_group(rng) + gen_rust.unformatted(rng, 1) + (gen_use_group(rng) if rng.chance(30) else "")
        cfg = draw_config(rng)
        for k in rng.sample(["imports_granularity", "group_imports", "reorder_imports", "imports_layout", "imports_indent"], rng.range(1, 4)):
            cfg[k] = rng.choice(EXTRA_OPTS.get(k, [True, False]))
        return {"lane": "B", "source": "grammar:use-group", "text": text, "mutations": ["grammar"] + (["delete"] if rng.chance(30) else []),
                "depth": 0, "badutf8": False, "delivery": rng.choice(["root", "stdin"]), "config": cfg,
                "hashseed": rng.below(1 << 32), "via": rng.choice(["file", "cli"]), "emit": rng.choice([[], ["--check"]]),
                "postmutate": rng.chance(30)}
    if lane == "C":
        site = rng.choice(SITES)
        return {"lane": "C", "site": site, "nth": rng.choice(["1", "1", "2", "3", "*"]), "hashseed": rng.below(1 << 32),
                "config": {"format_code_in_doc_comments": True} if site == "format_snippet" and rng.chance(50) else {}}
    c = corpus()
    name, path = rng.choice(c)
    try:
        with open(path, "rb") as f:
            raw = f.read()
        text = raw.decode("utf-8")
    except (OSError, UnicodeDecodeError):
        name, text = "gen", gen_rust.unformatted(rng, 3)
    if len(text) > 40000:
        text = text[:40000]
    nmut = rng.choice([0, 0, 1, 1, 1, 2, 3])
    text, desc = rustlex.mutate(rng, text, nmut)
    if rng.chance(20):
        text = rustlex.relayout(rng, text)
        desc = desc + ["relayout"]
    depth = 0
    if rng.chance(15):
        depth = rng.choice([4, 8, 16, 24, 32])
        text = rustlex.amplify(rng, text, depth)
    if rng.chance(3):
        # truncation taken to its end: nothing, or next to nothing, is left of the file
        text = rng.choice(["", "", "", "", "\n", "   ", "\n\n\n", "//", "/*", "\ufeff", "\r\n", "#!"])
        desc = desc + ["truncate-to-nothing"]
    # whole-file opt-outs and verbosity: paths that bypass the formatting phase altogether
    optout = rng.choice([None] * 8 + ["innerskip", "generated", "ignored"])
    if optout == "innerskip":
        text = "#![rustfmt::skip]\n" + text
    elif optout == "generated":
        text = "// @generated\n" + text
    badutf8 = rng.chance(3)
    delivery = rng.choice(["root", "root", "module", "module", "stdin"])
    cfg = draw_config(rng)
    if delivery == "stdin" and rng.chance(30):
        # stdin has no file to write to: every emit mode a configuration can name must still end in 0 or 1
        cfg["emit_mode"] = rng.choice(EXTRA_OPTS["emit_mode"])
        if rng.chance(30):
            cfg["make_backup"] = True
    return {"lane": "B", "source": name, "text": text, "mutations": desc, "depth": depth, "badutf8": badutf8,
            "delivery": delivery, "config": cfg, "hashseed": rng.below(1 << 32),
            "via": rng.choice(["file", "file", "cli", "configpath"]) if optout != "ignored" else "file", "optout": optout,
            "emit": rng.choice([[], [], ["--check"], ["--check"], ["--emit", "stdout"], ["--emit", "json"]]) + rng.choice([[], [], [], ["-v"], ["-q"]])
                    + rng.choice([[], [], [], ["--color", "always"], ["--color", "auto"], ["--color", "never"], ["--config", "color=Always"]]),
            "term": rng.choice(["dumb", "dumb", "vt100", "xterm", "xterm-256color", None, "no-such-terminal", "ansi"]),
            # the documented logging switch: whatever it prints, the process still ends with 0 or 1
            "log": rng.choice([None] * 14 + ["debug", "trace", "rustfmt_nightly=debug", "rustfmt_nightly::missed_spans=debug", "info"]),
            # the line-range restriction editors and format-diff use: none, an empty list, a range in the input, a
            # range in another file
            "filelines": rng.choice([None] * 12 + ["empty", "range", "range", "other"]),
            "flrange": [rng.range(1, 30), rng.range(1, 60)]}


LANE_C_SRC = '''/// Example:
/// ```
/// let  x=1;
/// ```
fn  documented( ){ }
macro_rules! mk{($a:ident)=>{fn $a( ){let v=1 ;}};}
fn  user( ){foo!( a ,b );let  y=2;bar![1 ,2];}
cfg_if::cfg_if! { if #[cfg(unix)] { mod lc_mod; } else { fn  other( ){ } } }
'''


def execute(case):
    v = Verdict()
    with core.Scratch() as sc:
        if case["lane"] == "C":
            return _lane_c(case, v, sc)
        if case["lane"] == "T":
            files = {"w/main.rs": case["text"]}
            for m in ("ta", "tb", "tc"):
                files["w/%s.rs" % m] = gen_rust.tiny_unformatted(m)
            sc.fresh_world({"files": files})
            res = core.run_inv(sc, {"argv": list(case["emit"]) + ["main.rs"], "cwd": "w", "hashseed": case["hashseed"]})
            v.account(res)
            if res.timed_out:
                v.inconclusive = max(0, v.inconclusive - 1)
                v.add("C16:no-result|tiny-input", "a %d-byte root file around a cfg_if!/cfg_match! call (mutations %s): no result after %.0f s; text=%r" % (
                    len(case["text"]), case["mutations"], core.PROC_TIMEOUT, case["text"][:300]))
            ab = core.abnormal(res)
            if ab:
                v.add("C16:%s|cfg-macro" % ab, "text=%r status=%s stderr=%r" % (case["text"][:300], res.status(), core.text_of(res.stderr)[-300:]))
            v.probe("cfg-macro-grammar")
            v.sample = v.sample or {"lane": "T", "status": res.status()}
            return v
        if case["lane"] == "M":
            sc.fresh_world({"files": case["files"]})
            res = core.run_inv(sc, {"argv": list(case["emit"]) + list(case["args"]), "hashseed": case["hashseed"], "plan": case["plan"]})
            v.account(res)
            ab = core.abnormal(res)
            if ab:
                v.add("C16:%s|several-inputs" % ab, "argv=%s plan=%s status=%s stderr=%r" % (
                    list(case["emit"]) + list(case["args"]), case["plan"], res.status(), core.text_of(res.stderr)[-300:]))
            v.probe("several-inputs")
            v.sample = v.sample or {"lane": "M", "status": res.status()}
            return v
        if case["lane"] == "Y":
            sc.fresh_world({"files": case["files"]})
            root = {"rel": case["dir"] + "/main.rs", "abs": "$ROOT/%s/main.rs" % case["dir"], "cwd": "main.rs"}[case["spelling"]]
            res = core.run_inv(sc, {"argv": list(case["emit"]) + [root], "cwd": case["dir"] if case["spelling"] == "cwd" else ".",
                                    "hashseed": case["hashseed"]})
            v.account(res)
            ab = core.abnormal(res)
            if ab:
                v.add("C16:%s|module-cycle" % ab, "modules including each other in a circle: argv=%s status=%s stderr=%r" % (
                    list(case["emit"]) + [root], res.status(), core.text_of(res.stderr)[-300:]))
            v.probe("module-cycle")
            v.sample = v.sample or {"lane": "Y", "status": res.status()}
            return v
        if case["lane"] == "P":
            sc.fresh_world({"files": {"w/.keep": ""}})
            plan = ["* write %d @1 errno 32" % case["nth"]]
            res = core.run_inv(sc, {"argv": list(case["emit"]), "cwd": "w", "hashseed": case["hashseed"], "stdin": case["text"], "plan": plan})
            v.account(res)
            v.planned("epipe")
            if any(e.fault for e in res.events) or res.signal == 13:
                v.fired("epipe")
                ab = core.abnormal(res)
                if ab:
                    v.add("C16:%s|reader-of-stdout-gone" % ab, "source on standard input, %s, the reader of standard output is gone at write %d: status=%s stderr=%r" % (
                        case["emit"] or "default emitter", case["nth"], res.status(), core.text_of(res.stderr)[:200]))
                v.probe("reader-of-stdout-gone")
            v.sample = v.sample or {"lane": "P", "plan": plan, "status": res.status()}
            return v
        if case["lane"] == "D":
            files = {"w/main.rs": ("mod input;\n" if case["module"] else "") + case["text"]}
            if case["module"]:
                files["w/input.rs"] = gen_rust.tiny_unformatted("m")
            sc.fresh_world({"files": files})
            res = core.run_inv(sc, {"argv": (["--backup"] if case["backup"] else []) + ["main.rs"], "cwd": "w",
                                    "hashseed": case["hashseed"], "plan": ["* mut %d * errno %d" % (case["k"], case["errno"])]})
            v.account(res)
            v.planned("errno")
            if any(e.fault for e in res.events):
                v.fired("errno")
                ab = core.abnormal(res)
                if ab:
                    v.add("C16:%s|io-error-while-emitting" % ab, "errno %d on mutating op %d (%s): status=%s stderr=%r" % (
                        case["errno"], case["k"], "--backup" if case["backup"] else "files", res.status(), core.text_of(res.stderr)[:200]))
                v.probe("io-error-while-emitting")
            v.sample = v.sample or {"lane": "D", "plan": "* mut %d * errno %d" % (case["k"], case["errno"]), "status": res.status()}
            return v
        files = {}
        cfg = dict(case["config"])
        data = case["text"].encode("utf-8", "replace")
        if case["badutf8"]:
            data = data[: len(data) // 2] + b"\xff\xfe" + data[len(data) // 2:]
        import base64
        spec = {"b64": base64.b64encode(data).decode()}
        argv = list(case["emit"])
        if case["delivery"] == "stdin" and argv == []:
            pass
        if case.get("optout") == "generated" and case["hashseed"] % 2:
            cfg["format_generated_files"] = False
        if case["via"] == "file":
            files["w/rustfmt.toml"] = gen_config.render(cfg) + ('ignore = ["input.rs"]\n' if case.get("optout") == "ignored" else
                                                                 'ignore = ["other.rs", "gen/"]\n' if case["hashseed"] % 5 == 0 else "")
        elif case["via"] == "configpath":
            # an explicit config in another directory, sometimes with an ignore list
            txt = gen_config.render(cfg)
            if case["hashseed"] % 2:
                txt += 'ignore = ["other.rs", "gen/"]\n'
            files["cfgdir/rustfmt.toml"] = txt
            argv += ["--config-path", "$ROOT/cfgdir/rustfmt.toml" if case["hashseed"] % 4 < 2 else "$ROOT/cfgdir"]
        else:
            if cfg:
                kv = ",".join("%s=%s" % (k, gen_config.cli_value(x)) for k, x in cfg.items())
                if "--config" in argv:  # one --config flag only: merge
                    i = argv.index("--config")
                    argv[i + 1] = argv[i + 1] + "," + kv
                else:
                    argv += ["--config", kv]
        inv = {"cwd": "w", "hashseed": case["hashseed"]}
        if "term" in case:
            inv["env"] = {"TERM": case["term"]}
            if case.get("log"):
                inv["env"]["RUSTFMT_LOG"] = case["log"]
        fl = case.get("filelines")
        if fl:
            lo, hi = sorted(case["flrange"])
            target = {"root": "input.rs", "module": "input.rs", "stdin": "stdin"}[case["delivery"]]
            if fl == "other":
                files["w/other.rs"] = "fn  other( ){ }\n"
                target = "other.rs"
            spans = [] if fl == "empty" else [{"file": target, "range": [lo, hi]}]
            argv += ["--unstable-features", "--file-lines", json.dumps(spans)]
        if case["delivery"] == "root":
            files["w/input.rs"] = spec
            inv["argv"] = argv + [["$ROOT/w/input.rs", "input.rs", "input.rs", "$ROOT//w/input.rs", "$ROOT/./w/input.rs", "$ROOT/w//input.rs",
                                   "./input.rs", "../w/input.rs"][case["hashseed"] % 8]]
        elif case["delivery"] == "module":
            files["w/main.rs"] = "mod input;\nfn  main( ){ }\n"
            if case["hashseed"] % 3 == 1 and case["via"] == "file":
                # the module is declared through an absolute #[path] that is not in normal form (a doubled slash, a
                # `/./`), below the directory of a rustfmt.toml with an ignore list
                k = (case["hashseed"] // 3) % 4
                ab = [os.path.dirname(sc.root) + "//" + os.path.basename(sc.root) + "/w/input.rs", sc.root + "/w//input.rs",
                      sc.root + "/./w/input.rs", sc.root + "//w/./input.rs"][k]
                files["w/main.rs"] = '#[path = "%s"]\nmod input;\nfn  main( ){ }\n' % ab
                if "ignore" not in files["w/rustfmt.toml"]:
                    files["w/rustfmt.toml"] += 'ignore = ["zzz.rs"]\n'
                v.probe("absolute-module-path-not-normal")
            files["w/input.rs"] = spec
            inv["argv"] = argv + ["main.rs" if case["hashseed"] % 3 else "$ROOT/w/main.rs"]
        else:
            files["w/.keep"] = ""
            inv["argv"] = list(argv)
            inv["stdin"] = spec
        sc.fresh_world({"files": files})
        res = core.run_inv(sc, inv)
        sig = "%s|%s|%s|%s" % (res.status(), _first(core.text_of(res.stderr)), ",".join(case["mutations"]), case["delivery"])
        v.nproc += 1
        v.ops += res.stats.get("ops", 0)
        v.clock += res.stats.get("clock", 0)
        v.sigs.add(sig[:200])
        for m in case["mutations"]:
            v.planned("corrupt:" + m); v.fired("corrupt:" + m)
        if case["depth"]:
            v.probe("nesting-amplifier-%d" % case["depth"])
        if res.timed_out:
            v.inconclusive += 1
            v.probe("timeout:" + case["source"])
            # kept aside for triage by hand (slow or hanging?); never read back by a check
            try:
                d = os.path.join(core.CACHE, "timeouts")
                os.makedirs(d, exist_ok=True)
                with open(os.path.join(d, "C16-%s.json" % case.get("seed", "x")), "w") as f:
                    json.dump(case, f)
            except OSError:
                pass
            return v
        ab = core.abnormal(res)
        cp = core.contained_panic(res)
        if cp:
            v.probe("contained-panic:" + cp)
        if res.exit == 1:
            v.probe("ordinary-failure")
        if ab:
            err = core.text_of(res.stderr)
            m = re.search(r"panicked at [^\n]*\n([^\n]*)", err)
            msg = (m.group(1) if m else "")[:160]
            v.add("C16:%s" % ab, "source=%s mutations=%s delivery=%s depth=%d config=%s argv=%s status=%s msg=%r" % (
                case["source"], case["mutations"], case["delivery"], case["depth"], cfg, inv["argv"], res.status(), msg))
        if v.sample is None:
            v.sample = {"source": case["source"], "mutations": case["mutations"], "delivery": case["delivery"], "config": cfg,
                        "argv": inv["argv"], "status": res.status(), "stderr": core.text_of(res.stderr)[:160]}
    return v


def _first(err):
    for l in err.split("\n"):
        l = l.strip()
        if l:
            l = re.sub(r"/dev/shm/[^ :]*", "P", l)
            l = re.sub(r"\d+", "N", l)
            return l[:60]
    return ""


def _lane_c(case, v, sc):
    site = case["site"]
    files = {"w/main.rs": LANE_C_SRC, "w/lc_mod.rs": "fn  in_mod( ){ }\n"}
    if case["config"]:
        files["w/rustfmt.toml"] = gen_config.render(case["config"])
    detail = {"parser_new": "/main.rs", "parse_crate_mod": "/main.rs", "parse_file_as_module": "lc_mod.rs",
              "rewrite_macro": rng_pick(case, ["foo", "bar", ""]), "format_snippet": "", "parse_cfg_if": ""}[site]
    spec = site + ("@" + detail if detail else "") + "#" + case["nth"]
    sc.fresh_world({"files": files})
    ref = core.run_inv(sc, {"argv": ["--emit", "stdout", "$ROOT/w/main.rs"], "cwd": "w", "hashseed": case["hashseed"]})
    v.account(ref, nontrivial=False)
    sc.fresh_world({"files": files})
    snap0 = core.snapshot(sc.root)
    res = core.run_inv(sc, {"argv": ["--emit", "stdout", "$ROOT/w/main.rs"], "cwd": "w", "hashseed": case["hashseed"],
                            "env": {"RUSTFMT_VERIF_PANIC": spec}})
    v.account(res)
    v.planned("panic:" + site)
    fired = b"rustfmt_verif: injected panic" in res.stderr
    if not fired:
        v.probe("panic-site-not-reached:" + site)
        return v
    v.fired("panic:" + site)
    det = "spec=%s status=%s stderr-tail=%r" % (spec, res.status(), core.text_of(res.stderr)[-200:])
    ab = core.abnormal(res, ignore_injected=True)
    if ab:
        v.add("C16:panic-not-contained|%s|%s" % (site, ab.split("@")[0]), det)
        return v
    diff = {p for p in core.snap_diff(snap0, core.snapshot(sc.root)) if not os.path.basename(p).startswith("rustc-ice")}
    if diff:
        v.add("C16:contained-panic-writes-files|%s" % site, "%s: %s" % (det, sorted(diff)))
    out = core.text_of(res.stdout)
    if site in ("parser_new", "parse_crate_mod", "parse_file_as_module"):
        if res.exit != 1:
            v.add("C16:parser-panic-not-a-failure|%s" % site, det)
        if "fn documented" in out or "fn user" in out:
            v.add("C16:output-despite-parser-panic|%s" % site, det)
    else:
        if res.exit != ref.exit:
            v.add("C16:contained-panic-changes-exit-status|%s" % site, "%s (reference exit %s)" % (det, ref.status()))
        if site == "rewrite_macro":
            # the statement containing the macro call appears as written; everything else as without the fault
            rl = [l for l in core.text_of(ref.stdout).split("\n") if "!" not in l]
            ol = [l for l in out.split("\n") if "!" not in l]
            if rl != ol:
                v.add("C16:contained-macro-panic-changes-other-code", det)
            # a macro call is either formatted or left exactly as written, never lost or garbled
            for forms in (("foo!( a ,b )", "foo!(a, b)"), ("bar![1 ,2]", "bar![1, 2]")):
                if not any(f in out for f in forms):
                    v.add("C16:failed-macro-not-left-as-written", "%s: none of %s in the output" % (det, forms))
        else:
            for must in ("fn documented() {}", "fn other() {}" if False else "fn documented() {}"):
                if must not in out:
                    v.add("C16:contained-panic-loses-other-code|%s" % site, det)
    v.sample = v.sample or {"lane": "C", "spec": spec, "status": res.status()}
    return v


def rng_pick(case, opts):
    return opts[case["hashseed"] % len(opts)]


def shrinks(case):
    if case["lane"] != "B" or "config" not in case:
        return
    cfg = case["config"]
    for k in list(cfg):
        if k in ("max_width", "tab_spaces"):
            continue
        c = copy.deepcopy(case); del c["config"][k]; yield c
    if case["emit"]:
        c = copy.deepcopy(case); c["emit"] = []; yield c
    if case["delivery"] != "root":
        c = copy.deepcopy(case); c["delivery"] = "root"; yield c
    # halve the text at line boundaries
    lines = case["text"].split("\n")
    if len(lines) > 4:
        h = len(lines) // 2
        for part in (lines[:h], lines[h:]):
            c = copy.deepcopy(case); c["text"] = "\n".join(part); yield c
        q = len(lines) // 4
        for i in range(0, len(lines), max(1, q)):
            c = copy.deepcopy(case); c["text"] = "\n".join(lines[:i] + lines[i + q:]); yield c
    elif len(lines) > 1:
        for i in range(len(lines)):
            c = copy.deepcopy(case); c["text"] = "\n".join(lines[:i] + lines[i + 1:]); yield c
