"""C19 -- format-diff turns a patch into exactly the lines it added.

The driver draws two versions of a small tree as an edit script and renders the
unified diff itself, so the post-image ranges are known by construction.  The
real rustfmt-format-diff reads it from a (faulty) stdin stream and talks to the
recording stub.
"""
import copy
import json
import os

from .. import core
from ..engine import Verdict

ID = "C19"
LEVEL = "exploration"
RULE = ("world = edit script over 1-4 files (.rs and other, nested directories, new / deleted / renamed files) rendered "
        "by the driver as a unified diff with 0-3 context lines, several hunks per file, additions at the first and last "
        "line, pure deletions, omitted counts, git headers, section text after the second @@ (incl. `+N` look-alikes), "
        "timestamps, missing final newline; script = rustfmt-format-diff -p N -f PATTERN < diff with the stub as $RUSTFMT; "
        "faults = short reads / EINTR on stdin (two chunkings per world), child exit status / signal / spawn ENOENT, hash "
        "seed. distinct_nontrivial = distinct (op,path,result) signatures of runs that spawned a child.")
ASSUMPTIONS = [
    "a path with fewer components than -p strips matches nothing and contributes nothing (generated since F26)",
    "paths contain no spaces (excluded by the property)",
]
COMPONENTS = {
    "rustfmt-format-diff": "real (rebuilt from /repo working tree)",
    "$RUSTFMT": "stub (records argv; scripted exit status / signal)",
    "stdin": "real pipe behind the simfs interposer (short reads, EINTR)", "hash seed": "simulated",
}
WORDS = ["++ b/src/other.rs", "let x = 1;", "fn f() {}", "// note", "x += 1;", "call(a, b);", "}", "{", "", "struct S;", "use a::b;", "y = x +1;", "a - b", "+plus", "-minus"]


# texts that make a content line look like a file header once the diff marker stands in front of them
LOOKALIKES = ["++ b/src/other.rs", "-- old note", "++ new note", "-- a/src/other.rs", "++ b/x/y/z/w.rs"]


def gen_file(rng, ctx, lookalike=False):
    """returns (old_lines|None, new_lines|None, hunks[(os,oc,ns,nc, body_lines)])"""
    kind = rng.choice(["edit"] * 6 + ["new", "deleted", "noop"])
    words = (LOOKALIKES * 2 + WORDS[1:]) if lookalike else WORDS[1:]
    line = lambda: rng.choice(words) + (" // %d" % rng.below(100) if rng.chance(40) else "")
    if kind == "new":
        new = [line() for _ in range(rng.range(1, 6))]
        body = ["+" + l for l in new]
        return None, new, [(0, 0, 1, len(new), body)]
    if kind == "deleted":
        old = [line() for _ in range(rng.range(1, 6))]
        return old, None, [(1, len(old), 0, 0, ["-" + l for l in old])]
    nchg = 0 if kind == "noop" else rng.range(1, 3)
    blocks = []  # ("keep", lines) / ("chg", del_lines, add_lines)
    first_keep = rng.choice([0, 0, 1, 2, 5])
    blocks.append(("keep", [line() for _ in range(first_keep)]))
    for i in range(nchg):
        k = rng.below(4)
        d = [line() for _ in range(rng.range(1, 3))] if k in (0, 2) else []
        a = [line() for _ in range(rng.range(1, 4))] if k in (0, 1, 3) else []
        blocks.append(("chg", d, a))
        last = i == nchg - 1
        klen = rng.choice([0, 1, 4]) if last else 2 * ctx + 1 + rng.below(3)
        blocks.append(("keep", [line() for _ in range(klen)]))
    old, new, hunks = [], [], []
    for i, b in enumerate(blocks):
        if b[0] == "keep":
            old += b[1]
            new += b[1]
            continue
        before = blocks[i - 1][1][-ctx:] if ctx else []
        after = blocks[i + 1][1][:ctx] if ctx else []
        os_ = len(old) - len(before) + 1
        ns = len(new) - len(before) + 1
        oc = len(before) + len(b[1]) + len(after)
        nc = len(before) + len(b[2]) + len(after)
        body = [" " + l for l in before] + ["-" + l for l in b[1]] + ["+" + l for l in b[2]] + [" " + l for l in after]
        if oc == 0:
            os_ -= 1
        if nc == 0:
            ns -= 1
        hunks.append((os_, oc, ns, nc, body))
        old += b[1]
        new += b[2]
    return old, new, hunks


def generate(rng, tier):
    ctx = rng.range(0, 3)
    p = rng.range(0, 3)
    style = rng.choice(["git", "git", "plain"])
    prefix_a = {0: "", 1: "a/", 2: "a/w/", 3: "x/y/z/"}[p]
    prefix_b = {0: "", 1: "b/", 2: "b/w/", 3: "q/y/z/"}[p]
    # `diff -u /abs/old/f.rs /abs/new/f.rs`: absolute paths, whose leading slash closes an (empty) first component
    abs_style = style == "plain" and rng.chance(25)
    if abs_style:
        prefix_a = "/" + "".join(c + "/" for c in ["o", "y", "z"][: max(0, p - 1)])
        prefix_b = "/" + "".join(c + "/" for c in ["q", "y", "z"][: max(0, p - 1)])
    nfiles = rng.range(1, 4)
    names = rng.sample(["src/lib.rs", "src/main.rs", "src/a/mod.rs", "src/a/deep/x.rs", "README.md", "build.rs", "src/data.txt",
                        "tests/t.rs", "src/gen.rs.in", "Cargo.toml", "-x.rs", "--check.rs"], nfiles)
    quoted = style == "git" and not abs_style and rng.chance(4)
    if quoted:
        # a file name outside ASCII, spelled the way git prints it by default (core.quotePath): in double quotes with
        # octal escapes
        names[0] = "src/caf\u00e9.rs"
    flt = rng.choice([None, None, r".*\.rs", r"src/.*\.rs", r".*", r".*\.(rs|toml)", r"src/.*\.rs|tests/.*\.rs", r"build\.rs|src/lib\.rs",
                      # filters whose leftmost-first match can stop short of the end of a path they do match as a whole
                      r".*\.(rs|rs\.in)", r"src/.+?\.rs.*?", r"src/lib\.rs|src/gen\.rs|src/gen\.rs\.in", r".*\.(r|rs|t|toml)"])
    eff_filter = flt or r".*\.rs"
    lines = []
    expected = []  # (file, lo, hi)
    import re
    lookalike = rng.chance(12)
    for name in names:
        old, new, hunks = gen_file(rng, ctx, lookalike)
        new_name = name
        if old is not None and new is not None and rng.chance(15):
            new_name = name.replace(".", "_renamed.") if "." in name else name + "_renamed"
        def spell(p):
            if quoted and any(ord(c) > 127 for c in p):
                return '"' + "".join(c if ord(c) < 128 else "".join("\\%03o" % b for b in c.encode()) for c in p) + '"'
            return p
        if style == "git":
            lines.append("diff --git %s %s" % (spell((prefix_a or "a/") + name), spell((prefix_b or "b/") + new_name)))
            if old is None:
                lines.append("new file mode 100644")
            if new is None:
                lines.append("deleted file mode 100644")
            if new_name != name:
                lines += ["similarity index 80%", "rename from %s" % name, "rename to %s" % new_name]
            lines.append("index 83db48f..bf269f4 100644")
        if not hunks:
            continue
        ts = "\t2026-01-01 00:00:00.000000000 +0000" if rng.chance(20) else ""
        lines.append("--- " + ("/dev/null" if old is None else spell(prefix_a + name)) + ts)
        post = "/dev/null" if new is None else prefix_b + new_name
        short = False
        if new is not None and p >= 1 and "/" not in new_name and not abs_style and rng.chance(35):
            # a path with fewer components than -p asks to strip: nothing can be stripped, the file matches nothing
            # and its hunks belong to nobody (least of all to the file before it)
            post = "/".join(prefix_b.split("/")[: p - 1] + [new_name])
            short = True
        lines.append("+++ " + spell(post) + ts)
        stripped = new_name if new is not None else None
        if abs_style and p == 0 and new is not None:
            stripped = "/" + new_name
        if short:
            stripped = None
        if new is None:
            # what the tool sees after stripping p components of /dev/null -- never matches a sensible filter
            stripped = None
        for (os_, oc, ns, nc, body) in hunks:
            a = "-%d" % os_ + ("" if oc == 1 and rng.chance(70) else ",%d" % oc)
            b = "+%d" % ns + ("" if nc == 1 and rng.chance(70) else ",%d" % nc)
            sect = ""
            if rng.chance(35):
                sect = " " + rng.choice(["fn main() {", "impl Foo {", "let y = x +1;", "a +5,7 b", "x + 3", "mod t { // +2"])
            lines.append("@@ %s %s @@%s" % (a, b, sect))
            lines += body
            if stripped is not None and nc > 0 and re.match("^(?:%s)$" % eff_filter, stripped):
                expected.append([stripped, ns, ns + nc - 1])
        if rng.chance(10) and new is not None:
            lines.append("\\ No newline at end of file")
    text = "\n".join(lines) + ("\n" if rng.chance(85) else "")
    # an unreadable stream: a read error part-way through, or a line that is not valid UTF-8 (a Latin-1 text file
    # touched by the same patch) somewhere before the end
    streamfault = rng.choice([None] * 10 + ["read-eio", "read-eio", "latin1"])
    latin1_at = None
    if streamfault == "latin1":
        ls = text.split("\n")
        latin1_at = rng.below(max(1, len(ls) - 1))
    return {
        "streamfault": streamfault, "latin1_at": latin1_at, "readfault_nth": rng.range(1, 4),
        "diff": text, "quoted": quoted, "p": p, "filter": flt, "expected": expected, "ctx": ctx,
        "child": rng.choice(["ok"] * 5 + ["exit1", "exit101", "signal9", "signal11", "enoent", "e2big", "echild"]),
        # the tool's own standard output cannot be written (reader gone: EPIPE; disk full: ENOSPC)
        "outfault": rng.choice([None] * 5 + [32, 28]),
        "chunks": [rng.choice(["1", "7,1,30", "64", "3,200", "1000000"]), rng.choice(["2,5", "13", "1,1,1,4096"])],
        "eintr": rng.chance(20), "hashseed": rng.below(1 << 32),
    }


def execute(case):
    v = Verdict()
    exp = sorted(tuple(e) for e in case["expected"])
    exp_files = sorted({e[0] for e in exp})
    with core.Scratch() as sc:
        sc.fresh_world({"files": {"home/.keep": ""}})
        argv = ["-p", str(case["p"])]
        if case["filter"]:
            argv += ["-f", case["filter"]]
        results = []
        for k, chunk in enumerate(case["chunks"]):
            env = {"RUSTFMT": core.STUB}
            stubplan = []
            child = case["child"]
            if child == "exit1":
                stubplan = ["* exit 1"]
            elif child == "exit101":
                stubplan = ["* exit 101"]
            elif child.startswith("signal"):
                stubplan = ["* signal %s" % child[6:]]
            elif child == "enoent":
                env["RUSTFMT"] = "/nonexistent/rustfmt"
            if child != "enoent" and case["hashseed"] % 16 == 5:
                # the designated formatter lives under a path that is not valid UTF-8 (a directory named in Latin-1):
                # still the one to run
                odd = os.path.join(sc.root, "outils-\udce9t\udce9")
                if not os.path.isdir(odd):
                    os.makedirs(odd)
                    os.symlink(core.STUB, os.path.join(odd, "stub-rustfmt"))
                env["RUSTFMT"] = os.path.join(odd, "stub-rustfmt")
                v.probe("formatter-path-not-utf8")
            if child == "echild":
                # the child fails and cannot even be waited for (SIGCHLD ignored by whoever started the tool: the kernel
                # reaps it, waitpid answers ECHILD): nothing is known about it, which is not success
                stubplan = ["* exit 3"]
            e2big = child == "e2big"
            if e2big:
                stubplan = ["0 exit 1"]  # whatever the tool tries after the failed spawn: its first child fails
            plan = ["* read 0 @0 short %s" % chunk]
            if case["eintr"] and k == 1:
                plan.append("* read 2 @0 eintr 2")
            if e2big:
                plan.append("0 spawn 1 stub-rustfmt errno 7")
            if case.get("outfault"):
                plan.append("0 write 0 @1 errno %d" % case["outfault"])
            if child == "echild":
                plan.append("0 wait 1 * errno 10")
            sf = case.get("streamfault")
            stdin = case["diff"]
            if sf == "read-eio":
                plan = ["* read 0 @0 short 16", "* read %d @0 errno 5" % case["readfault_nth"]]
            elif sf == "latin1":
                ls = case["diff"].split("\n")
                ls.insert(case["latin1_at"], " caf\udcff")
                import base64
                stdin = {"b64": base64.b64encode("\n".join(ls).encode("utf-8", "surrogateescape")).decode()}
            inv = {"tool": "rustfmt-format-diff", "argv": argv, "stdin": stdin, "env": env,
                   "hashseed": (case["hashseed"] + k * 7727) & 0xFFFFFFFF, "plan": plan, "stubplan": stubplan}
            res = core.run_inv(sc, inv)
            spawned = [e for e in res.procs[0] if e.op == "spawn"]
            v.account(res, nontrivial=bool(spawned))
            v.planned("short")
            if any("SHORT" in e.raw for e in res.procs[0]):
                v.fired("short")
            if case["eintr"] and k == 1:
                v.planned("eintr")
                if any(e.fault for e in res.procs[0]):
                    v.fired("eintr")
            det = "argv=%s chunks=%s child=%s status=%s stdout=%r" % (argv, chunk, child, res.status(), core.text_of(res.stdout)[:120])
            if sf:
                # the patch could not be read completely: the tool must fail (however), never act on a prefix and
                # report success
                fired = sf == "latin1" or any(e.fault and e.errno == 5 for e in res.procs[0])
                v.planned("stream:" + sf)
                if fired:
                    v.fired("stream:" + sf)
                    if res.exit == 0 and res.signal is None and exp:
                        got = None
                        if res.stubcalls and "--file-lines" in res.stubcalls[0]["argv"]:
                            a = res.stubcalls[0]["argv"]
                            try:
                                got = sorted((r["file"], r["range"][0], r["range"][1]) for r in json.loads(a[a.index("--file-lines") + 1]))
                            except ValueError:
                                got = None
                        if got != exp:
                            v.add("C19:unreadable-patch-partly-applied|%s" % sf, "%s: the diff could not be read to the end, yet the tool exited 0 after asking for %s (complete answer: %s)" % (det, got, exp))
                    v.probe("unreadable-stream")
                continue
            outfired = False
            if case.get("outfault"):
                v.planned("stdout-errno")
                outfired = any(e.fault and e.op == "write" for e in res.procs[0])
                if outfired:
                    v.fired("stdout-errno")
            ab = core.abnormal(res)
            # (a message that cannot be printed ends the tool through println!'s panic: a failure, which is all the
            # property asks for)
            if ab and not ab.startswith("exit:") and not (outfired and ab.startswith("panic@") and res.exit == 101):
                v.add("C19:abnormal|%s" % ab, det + " stderr=%r" % core.text_of(res.stderr)[:200])
                continue
            if e2big:
                if any(e.fault for e in res.procs[0]):
                    v.planned("spawn-e2big"); v.fired("spawn-e2big")
                    if exp and res.exit == 0:
                        v.add("C19:exit-0-despite-failing-child|e2big" + ("|stdout-unwritable" if outfired else ""), "%s: spawning rustfmt failed with E2BIG (and the first retry, if any, exited 1), yet the tool exited 0" % det)
                continue
            got_files, got_ranges = None, None
            call_argv = None
            if child == "enoent":
                call_argv = spawned[0].path2[1:] if spawned else None
            elif res.stubcalls:
                call_argv = res.stubcalls[0]["argv"]
                if len(res.stubcalls) > 1:
                    v.add("C19:more-than-one-child", det)
            if call_argv is not None:
                if "--file-lines" not in call_argv:
                    v.add("C19:child-without-file-lines", det + " child argv %s" % call_argv)
                    continue
                i = call_argv.index("--file-lines")
                rest = call_argv[i + 2:]
                protected = rest[rest.index("--") + 1:] if "--" in rest else []
                bare = call_argv[:i] + (rest[: rest.index("--")] if "--" in rest else rest)
                got_files = sorted(bare + protected)
                dashed = [a for a in bare if a.startswith("-")]
                if dashed:
                    # a path of the patch that begins with a dash, handed over where the formatter reads options
                    v.add("C19:path-taken-for-option", "%s: file argument(s) %s are not behind a `--`; child argv %s" % (det, dashed, call_argv))
                try:
                    got_ranges = sorted((r["file"], r["range"][0], r["range"][1]) for r in json.loads(call_argv[i + 1]))
                except (ValueError, KeyError, IndexError):
                    v.add("C19:file-lines-not-json", det + " child argv %s" % call_argv)
                    continue
            results.append((got_files, got_ranges, res.exit))
            if not exp:
                if call_argv is not None:
                    v.add("C19:child-run-for-empty-result" + _sfx(case),
                          "%s: child argv %s" % (det, call_argv))
                elif res.exit != 0:
                    v.add("C19:nonzero-exit-for-empty-result", det)
                continue
            if call_argv is None:
                v.add("C19:no-child-although-lines-were-added" + ("|quoted-path" if case.get("quoted") else ""), "%s: expected %s" % (det, exp))
                continue
            if got_files != exp_files:
                cls = "C19:file-set" + _sfx(case)
                v.add(cls, "%s: files %s, expected %s" % (det, got_files, exp_files))
            if got_ranges != exp:
                cls = "C19:ranges" + _sfx(case)
                v.add(cls, "%s: ranges %s, expected %s" % (det, got_ranges, exp))
            failing = child != "ok"
            if failing:
                v.planned("child:" + child); v.fired("child:" + child)
            if failing and res.exit == 0:
                v.add("C19:exit-0-despite-failing-child|%s" % child + ("|stdout-unwritable" if outfired else ""), det)
            if not failing and res.exit != 0 and not outfired:
                v.add("C19:nonzero-exit-although-child-succeeded", det)
        if len(results) == 2 and results[0] != results[1]:
            v.add("C19:chunking-changes-result", "two chunkings of the same diff: %s vs %s" % (results[0], results[1]))
        if exp:
            v.probe("lines-added")
        else:
            v.probe("empty-result")
        if "+1;" in case["diff"] or "+5,7" in case["diff"] or "+ 3" in case["diff"]:
            v.probe("section-text-with-plus")
        v.sample = {"diff": case["diff"][:600], "argv": argv, "expected": exp[:6], "child": case["child"], "chunks": case["chunks"]}
    return v


def _sfx(case):
    if case.get("quoted"):
        return "|quoted-path"
    if _header_lookalike(case["diff"]):
        return "|added-line-looks-like-header"
    return ""


def _header_lookalike(diff):
    """an added line inside a hunk whose content starts with `++ `, i.e. a diff line starting with `+++ `
    that is not preceded by a `--- ` line"""
    ls = diff.split("\n")
    return any(l.startswith("+++ ") and (i == 0 or not ls[i - 1].startswith("--- ")) for i, l in enumerate(ls))


def shrinks(case):
    if case["child"] != "ok":
        c = copy.deepcopy(case); c["child"] = "ok"; yield c
    if case["eintr"]:
        c = copy.deepcopy(case); c["eintr"] = False; yield c
    if case["chunks"] != ["1000000", "1000000"]:
        c = copy.deepcopy(case); c["chunks"] = ["1000000", "1000000"]; yield c
