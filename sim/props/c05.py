"""C05 -- a failing run never damages source files.

World: 1-4 crate roots in sibling directories; one (sometimes two) of them is
made unprocessable by a sampled fault kind whose *position* in the victim's
module tree is enumerated.  Oracles are evaluated over the recorded history.
"""
import copy
import os
import re

from .. import core, gen_rust, gen_tree
from ..engine import Verdict

ID = "C05"
LEVEL = "exploration"
RULE = ("world = 1-4 crate roots (module trees of 1-6 deliberately unformatted files) in sibling directories, "
        "one invocation naming them in a drawn order and emit mode; one fault kind per world (syntax damage x3, "
        "truncation, invalid UTF-8, missing / ambiguous / directory-for-file module, errno on open|read, bad / "
        "mistyped / version-mismatched / unreadable config, bad --config-path, nonexistent root, injected parser "
        "panic) with its position enumerated over every file of the victim tree; each faulty run is compared with "
        "a fault-free run of the non-victim roots. distinct_nontrivial = distinct (op,path,result) trace signatures "
        "of faulty runs in which the victim was actually reached.")
ASSUMPTIONS = [
    "stdout of the run is the result channel: diagnostics about a victim go to stderr, so stdout must equal that of the same invocation without the victim roots",
    "the reference formatted text is what a fault-free run of the same binary writes",
    "the sandbox runs as root, so 'unreadable' is produced by the interposer (EACCES/EIO/EISDIR from open/read), not by permissions",
]
COMPONENTS = {
    "rustfmt": "real (rebuilt from /repo working tree, dev profile, --cfg rustfmt_verif)",
    "file system": "real tmpfs behind the simfs interposer",
    "hash seed": "simulated", "clock": "simulated",
    "parser panic": "injected through the cfg(rustfmt_verif) fault point (lane panic)",
}

MODES = [
    ("files", []), ("files", ["-l"]), ("backup", ["--backup"]), ("stdout", ["--emit", "stdout"]),
    ("check", ["--check"]), ("json", ["--emit", "json"]), ("checkstyle", ["--emit", "checkstyle"]),
]
KINDS = ["unclosed", "stray", "lexer", "truncate", "recoverable", "recoverable", "badutf8", "missing", "ambiguous", "dirforfile",
         "open-errno", "read-errno", "badconfig", "configpath", "noroot", "panic", "write-fault", "stashed", "stashed"]
PANIC_SITES = ["parse_crate_mod", "parse_file_as_module", "parser_new"]


def generate(rng, tier):
    nroots = rng.range(1, 4)
    trees = []
    files = {}
    for i in range(nroots):
        t = gen_tree.gen_crate(rng, base="c%d" % i, max_files=rng.choice([1, 3, 6]), suffix=str(i),
                               root_name=rng.choice(["main%d.rs", "lib%d.rs", "src/main%d.rs", "src/lib%d.rs"]) % i,
                               feats=rng.choice([{"modrs", "path", "inline"}, {"modrs", "path", "inline"}, {"modrs"},
                                                 {"modrs", "path", "cfg_attr_path"}, {"modrs", "cfg_if", "cfg_attr_path", "inline"},
                                                 {"modrs", "cfg_if", "cfg_match"}, {"modrs", "symlinkmod"}, {"modrs", "path", "symlinkmod"}]))
        trees.append(t.to_json())
        files.update(t.files)
    # a long chain of out-of-line modules, one inside the other (an honest, if unusual, layout): the offending file
    # may sit at any depth
    if rng.chance(7):
        i = rng.below(nroots)
        root = trees[i]["root"]
        d = os.path.dirname(root)
        prev, n = root, rng.range(33, 40)
        for j in range(1, n + 1):
            name = "kc%d_%d" % (i, j)
            f = os.path.join(d, name + ".rs")
            files[f] = gen_rust.tiny_unformatted(name)
            files[prev] = "mod %s;\n" % name + core.file_bytes(files[prev]).decode()
            trees[i]["reach"].append(f)
            trees[i].setdefault("decls", []).append([prev, name, f])
            d = os.path.join(d, name)
            prev = f
        trees[i].setdefault("features", []).append("deepchain")
    order = rng.shuffle(list(range(nroots)))
    nvict = 2 if nroots >= 3 and rng.chance(20) else 1
    victims = sorted(rng.sample(list(range(nroots)), nvict))
    kind = rng.choice(KINDS)
    mode = rng.choice(MODES)
    # optional benign local configs for some roots; some ignore one module file, which may itself
    # carry a (tolerated) recoverable lexer error
    ignored = {}
    for i in range(nroots):
        cfg = ""
        if rng.chance(25):
            cfg += "max_width = %d\n" % rng.choice([60, 80, 100])
        bases = [os.path.basename(f) for f in trees[i]["reach"]]
        cands = [f for f in trees[i]["reach"][1:] if os.path.basename(f) != "mod.rs" and bases.count(os.path.basename(f)) == 1]
        if cands and rng.chance(60 if kind in ("recoverable", "stashed") else 25):
            g = rng.choice(cands)
            cfg += 'ignore = ["%s"]\n' % os.path.basename(g)
            ignored[str(i)] = g
            if rng.chance(70):
                # what the ignored file gives the parser to say: an error it recovers from, a mere warning, or an error
                # inside a cfg_if! arm (which the module resolver parses on its own)
                files[g] = files[g] + rng.choice([
                    "fn ig%d() { let _ = 0b12; }\n" % i,
                    "fn ig%d() { let _ = 0b12; }\n" % i,
                    'fn ig%d() { let _s = "a\\\n\n   b"; }\n' % i,
                    "cfg_if::cfg_if! { if #[cfg(unix)] { struct Ig%d { a: u8 b: u8 } } }\n" % i,
                ])
        if cfg:
            files["c%d/rustfmt.toml" % i] = cfg
    # a module file outside every crate directory, declared by two or more of the roots through #[path]: what an
    # earlier root did with it (parsed it, failed on it) must not change what a later root does
    shared = {}
    if nroots >= 2 and rng.chance(35):
        sh = "shared/p_shared.rs"
        files[sh] = gen_rust.unformatted(rng, 1 + rng.below(2))
        users = sorted(rng.sample(list(range(nroots)), rng.range(2, nroots)))
        for i in users:
            root = trees[i]["root"]
            rel = os.path.relpath(sh, os.path.dirname(root))
            files[root] = '#[path = "%s"]\nmod p_shared;\n' % rel + core.file_bytes(files[root]).decode()
            trees[i]["reach"].append(sh)
            trees[i].setdefault("decls", []).append([root, "p_shared", sh])
        shared[sh] = users
    # a second root in the directory of one of the roots (src/main.rs next to src/lib.rs), both declaring the same
    # module file with the same spelling
    twin = None
    if rng.chance(30):
        i0 = rng.below(nroots)
        root0 = trees[i0]["root"]
        d0 = os.path.dirname(root0)
        name = "p_twsh%d" % i0
        tw, sh2 = os.path.join(d0, "twin%d.rs" % i0), os.path.join(d0, name + ".rs")
        files[sh2] = gen_rust.unformatted(rng, 1 + rng.below(2))
        files[tw] = "mod %s;\n" % name + gen_rust.unformatted(rng, 1)
        files[root0] = "mod %s;\n" % name + core.file_bytes(files[root0]).decode()
        trees[i0]["reach"].append(sh2)
        trees[i0].setdefault("decls", []).append([root0, name, sh2])
        trees.append({"base": trees[i0]["base"], "root": tw, "reach": [tw, sh2], "decoys": [], "skipped": [], "dontcare": [],
                      "features": ["twin"], "decls": [[tw, name, sh2]], "meta": {}})
        shared[sh2] = [i0, nroots]
        twin = [i0, nroots]
        order.insert(rng.below(len(order) + 1), nroots)
        if rng.chance(25):
            victims = [nroots]
    return {
        "shared": shared, "twin": twin,
        "world": {"files": files}, "trees": trees, "order": order, "victims": victims, "kind": kind,
        "sub": rng.below(1000), "mode": list(mode), "cwd": rng.choice([".", ".", "c0"]),
        "abs": rng.chance(25), "hashseed": rng.below(1 << 32), "positions": None, "ignored": ignored,
    }


def _arg(case, i):
    root = case["trees"][i]["root"]
    if case["abs"]:
        return "$ROOT/" + root
    return os.path.relpath(root, case["cwd"])


def _tree_files(t):
    return list(t["reach"])


def apply_fault(case, world, vi, pos):
    """returns (argv_extra, plan, env, applicable, replaced_root_arg)"""
    t = case["trees"][vi]
    kind, sub = case["kind"], case["sub"]
    files = world["files"]
    is_root = pos == t["root"]
    plan, extra, env, rootarg = [], [], {}, None
    # a declaration with cfg_attr(path) alternates: a missing / ambiguous candidate is tolerated by design (the
    # other candidates are used), so only faults *inside* a candidate apply
    names = [d[1] for d in t.get("decls", []) if d[2] == pos]
    multi = any(sum(1 for d in t.get("decls", []) if d[1] == n) > 1 for n in names)
    if multi and kind in ("missing", "ambiguous", "dirforfile"):
        return None
    txt = core.file_bytes(files[pos]).decode("utf-8", "replace") if pos in files else ""
    if kind == "unclosed":
        files[pos] = txt + "fn broken( {\n"
    elif kind == "stray":
        files[pos] = txt + "fn x() { let = ; }\n"
    elif kind == "lexer":
        files[pos] = txt + 'fn y() { let s = "unterminated; }\n'
    elif kind == "truncate":
        files[pos] = txt + "impl Z { fn t(&self) { if a {"
    elif kind == "stashed":
        # errors the parser recovers from and reports late (they are held back, not emitted on the spot)
        files[pos] = txt + ["const STASHED = 1;\n", "fn st() { let a = x.foo::<u32>; }\n", "fn st<'1a>() {}\n"][sub % 3]
    elif kind == "recoverable":
        files[pos] = txt + "fn rec() { let _ = %s; }\n" % ["0b13", "0o9", "1e", "0b12_u8"][sub % 4]
    elif kind == "badutf8":
        import base64
        files[pos] = {"b64": base64.b64encode(txt.encode() + b"// \xff\xfe\xfa bad\n").decode()}
    elif kind == "missing":
        if is_root:
            return None
        del files[pos]
    elif kind == "ambiguous":
        if is_root or os.path.basename(pos).startswith(("p_", "alt_")):
            return None
        if os.path.basename(pos) == "mod.rs":
            other = os.path.dirname(pos) + ".rs"
        else:
            other = os.path.join(os.path.splitext(pos)[0], "mod.rs")
        if other in files:
            return None
        files[other] = gen_rust.tiny_unformatted("amb")
        # a same-named file next to the declaring file: what a wrongly applied fallback would pick up instead of
        # reporting the ambiguity
        for df, name, target in t.get("decls", []):
            if target == pos and sub % 3:
                sib = os.path.join(os.path.dirname(df), name + ".rs")
                if sib not in files and os.path.normpath(sib) not in (os.path.normpath(pos), os.path.normpath(other)):
                    files[sib] = gen_rust.tiny_unformatted("sibling_decoy")
    elif kind == "dirforfile":
        if is_root:
            return None
        del files[pos]
        files[pos + "/placeholder.txt"] = "x\n"
    elif kind == "open-errno":
        plan = ["* open 1 %s errno %d" % (os.path.normpath(pos), [13, 5, 21, 40][sub % 4])]
    elif kind == "read-errno":
        plan = ["* read 1 %s errno %d" % (os.path.normpath(pos), [5, 13][sub % 2])]
    elif kind == "badconfig":
        if not is_root:
            return None
        cfgname = [".rustfmt.toml", "rustfmt.toml"][sub % 2]
        d = os.path.dirname(pos)
        p = os.path.join(d, cfgname)
        which = (sub // 2) % 6 if sub < 900 else 6 + sub % 2
        if which >= 6:
            # well-formed TOML except that the file is not UTF-8 (a Latin-1 letter in a comment / after a value)
            import base64
            files[p] = {"b64": base64.b64encode([b"# r\xe9glages du projet\nmax_width = 90\n", b"max_width = 90 # tr\xe8s large\nhard_tabs = true\n"][which - 6]).decode()}
        elif which == 0:
            files[p] = "max_width = \n"
        elif which == 1:
            files[p] = 'max_width = "wide"\n'
        elif which == 2:
            files[p] = 'required_version = "0.0.1"\n'
        elif which == 3:
            files[p] = "this is not toml at all [[[\n"
        elif which == 4:
            files[p] = "max_width = 90\n"
            plan = ["* open 1 %s errno 13" % os.path.normpath(p)]
        else:
            # the candidate cannot even be examined (EACCES / EIO / ELOOP from stat)
            files[p] = "max_width = 90\n"
            plan = ["* stat 1 %s errno %d" % (os.path.normpath(p), [13, 5, 40][sub % 3])]
    elif kind == "configpath":
        if not is_root:
            return None
        files["badcfg/rustfmt.toml"] = ["max_width = \n", 'tab_spaces = "x"\n', 'required_version = "0.0.1"\n'][sub % 3]
        if sub >= 900:
            import base64
            files["badcfg/rustfmt.toml"] = {"b64": base64.b64encode(b"# r\xe9glages\nmax_width = 90\n").decode()}
        extra = ["--config-path", "$ROOT/badcfg/rustfmt.toml"]
    elif kind == "noroot":
        if not is_root:
            return None
        rootarg = "gone"
    elif kind == "panic":
        site = PANIC_SITES[sub % len(PANIC_SITES)]
        if is_root and site == "parse_file_as_module":
            return None
        if not is_root and site != "parse_file_as_module":
            return None
        tail = "/".join(pos.split("/")[-2:]) if os.path.basename(pos) == "mod.rs" else os.path.basename(pos)
        env = {"RUSTFMT_VERIF_PANIC": "%s@/%s" % (site, tail)}
    else:
        raise core.HarnessError("unknown kind " + kind)
    return extra, plan, env, rootarg


def _lane_write_fault(case):
    """the run fails while a result is being stored (plain files mode): the disk fills up part-way through the write, or
    the write fails outright.  Whatever else happens, every source file holds its complete original or its complete
    formatted text"""
    v = Verdict()
    trees, order = case["trees"], case["order"]
    with core.Scratch() as sc:
        world = case["world"]
        files = sorted({f for t in trees for f in t["reach"]})
        sc.fresh_world(world)
        argv = [_arg(case, i) for i in order]
        ref = core.run_inv(sc, {"argv": argv, "cwd": case["cwd"], "hashseed": case["hashseed"]})
        v.account(ref, nontrivial=False)
        if ref.exit != 0 or ref.signal:
            v.probe("reference-failed")
            return v
        orig = {f: core.file_bytes(world["files"][f]) for f in files if isinstance(world["files"].get(f), (str, dict)) and not (isinstance(world["files"][f], dict) and "symlink" in world["files"][f])}
        fmt = {f: core.read_rel(sc.root, f) for f in orig}
        rewritten = [f for f in orig if fmt[f] != orig[f]]
        if not rewritten:
            v.probe("nothing-to-rewrite")
            return v
        target = rewritten[case["sub"] % len(rewritten)]
        n = len(fmt[target] or b"")
        pos = [0, 1, n // 2, max(0, n - 1)][(case["sub"] // 7) % 4]
        plan = ["* write 1 %s torn %d 28" % (os.path.normpath(target), pos)] if case["sub"] % 3 else ["* write 1 %s errno %d" % (os.path.normpath(target), [28, 5, 122][case["sub"] % 3])]
        backup = (case["sub"] // 28) % 3 == 0
        if backup:
            # the same with --backup: the result goes to a temporary sibling first; creating or writing that sibling
            # fails (nothing has happened to the source at that point; failures of the two renames belong to C20)
            argv = ["--backup"] + argv
            tmp = os.path.normpath(os.path.splitext(target)[0] + ".tmp") if "." in os.path.basename(target) else os.path.normpath(target + ".tmp")
            k = (case["sub"] // 84) % 4
            plan = [["* openw 1 %s errno 13" % tmp], ["* openw 1 %s errno 28" % tmp], ["* write 1 %s errno 28" % tmp],
                    ["* write 1 %s torn %d 28" % (tmp, pos)]][k]
        sc.fresh_world(world)
        res = core.run_inv(sc, {"argv": argv, "cwd": case["cwd"], "hashseed": case["hashseed"], "plan": plan})
        v.planned("write-fault" + ("|backup" if backup else ""))
        if not any(e.fault for e in res.events):
            v.account(res, nontrivial=False)
            v.probe("fault-not-reached")
            return v
        v.fired("write-fault" + ("|backup" if backup else ""))
        v.account(res)
        det = "plan=%s argv=%s status=%s stderr=%r" % (plan, argv, res.status(), core.text_of(res.stderr)[:160])
        ab = core.abnormal(res)
        if ab:
            v.add("C05:abnormal-exit|write-fault|%s" % ab.split("@")[0], det)
        elif res.exit != 1:
            v.add("C05:exit-status-not-1|write-fault", det)
        for f in orig:
            cur = core.read_rel(sc.root, f)
            if cur not in (orig[f], fmt[f]):
                v.add("C05:source-damaged-by-failed-backup-write" if backup else "C05:incomplete-write|write-fault", "%s holds %s bytes: neither its original (%d) nor its complete formatted text (%d); %s" % (
                    f, "no" if cur is None else len(cur), len(orig[f]), len(fmt[f] or b""), det), file=f)
                break
        v.sample = {"kind": "write-fault", "plan": plan, "status": res.status()}
    return v


def execute(case):
    if case["kind"] == "write-fault":
        return _lane_write_fault(case)
    v = Verdict()
    mode, margs = case["mode"]
    trees = case["trees"]
    order = case["order"]
    victims = case["victims"]
    with core.Scratch() as sc:
        # enumerate positions in the first victim's tree; a second victim (if any) is hit at its root
        v1 = victims[0]
        skip = case.get("ignored", {}).get(str(v1))
        positions = case["positions"] or [f for f in _tree_files(trees[v1]) if f != skip]
        if case["positions"] is None and "deepchain" in trees[v1].get("features", []):
            # of a long chain, the shallow end, the middle and every depth from 30 on
            def keep(f):
                mm = re.match(r"^kc\d+_(\d+)\.rs$", os.path.basename(f))
                return mm is None or int(mm.group(1)) in (1, 16) or int(mm.group(1)) >= 30
            positions = [f for f in positions if keep(f)]
        for pos in positions:
            world = copy.deepcopy(case["world"])
            r1 = apply_fault(case, world, v1, pos)
            if r1 is None:
                continue
            extra, plan, env, rootarg = r1
            rootargs = {v1: rootarg}
            hit = {v1}
            users = (case.get("shared") or {}).get(pos)
            if users:
                # damage in a file several roots declare: each of them fails (faults that fire once -- an errno, an
                # injected panic -- only hit the first root that gets there and are not generated here)
                if case["kind"] in ("panic", "open-errno", "read-errno"):
                    continue
                hit |= set(users)
                v.probe("shared-file-damaged")
            for v2 in victims[1:]:
                if case["kind"] == "panic":
                    continue  # one panic specification per process
                r2 = apply_fault(case, world, v2, trees[v2]["root"])
                if r2 is None:
                    continue
                plan = plan + r2[1]
                rootargs[v2] = r2[3]
                hit.add(v2)
            tw = case.get("twin")
            if tw and case["kind"] == "badconfig" and hit & set(tw):
                if plan:
                    continue  # (an errno that fires once fails whichever of the two roots comes first)
                hit |= set(tw)  # the unusable config sits in the directory both roots live in
            allvict = hit if case["kind"] != "configpath" else set(range(len(trees)))
            _one(case, v, sc, world, pos, extra, plan, env, rootargs, allvict)
    return v


def _argv(case, roots, extra, rootargs):
    mode, margs = case["mode"]
    args = list(margs) + list(extra)
    for i in roots:
        if rootargs.get(i):
            args.append(os.path.join(os.path.dirname(_arg(case, i)), "gone_%d.rs" % i))
        else:
            args.append(_arg(case, i))
    return args


def _one(case, v, sc, world, pos, extra, plan, env, rootargs, allvict):
    mode, margs = case["mode"]
    trees, order = case["trees"], case["order"]
    kind = case["kind"]
    survivors = [i for i in order if i not in allvict]
    tag = "kind=%s pos=%s mode=%s" % (kind, pos, mode)
    # ---- reference: same world, only the surviving roots, no faults
    ref_files, ref_out, ref_exit = {}, b"", 0
    if survivors:
        sc.fresh_world(world)
        inv = {"argv": _argv(case, survivors, [], {}), "cwd": case["cwd"], "hashseed": case["hashseed"]}
        ref = core.run_inv(sc, inv)
        v.account(ref, nontrivial=False)
        if ref.signal or ref.exit not in ((0, 1) if mode == "check" else (0,)) or ref.timed_out:
            v.probe("reference-failed")
            return
        ref_out, ref_exit = ref.stdout, ref.exit
        for i in survivors:
            for f in trees[i]["reach"]:
                ref_files[f] = core.read_rel(sc.root, f)
    # ---- faulty run
    sc.fresh_world(world)
    snap0 = core.snapshot(sc.root)
    pert = core.legal_perturbation(case["hashseed"] // 3)
    if pert:
        v.planned("legal-perturbation")
    inv = {"argv": _argv(case, order, extra, rootargs), "cwd": case["cwd"], "hashseed": case["hashseed"],
           "plan": plan + pert, "env": env}
    res = core.run_inv(sc, inv)
    fired = True
    if plan:
        fired = any(e.fault and "errno=4 " not in e.raw + " " for e in res.events)
    if kind == "panic":
        fired = b"rustfmt_verif: injected panic" in res.stderr
    v.planned(kind)
    if not fired:
        v.account(res, nontrivial=False)
        v.probe("fault-not-reached")
        return
    v.fired(kind)
    v.account(res)
    if res.timed_out:
        return
    snap1 = core.snapshot(sc.root)
    diff = core.snap_diff(snap0, snap1)
    err = core.text_of(res.stderr)
    det = "%s argv=%s status=%s stderr=%r" % (tag, inv["argv"], res.status(), err[:300])
    # oracle 2: diagnostic + exit status 1
    ab = core.abnormal(res, ignore_injected=(kind == "panic"))
    if ab:
        v.add("C05:abnormal-exit|%s|%s" % (_kindclass(kind, pos, case), ab.split("@")[0]), det, site=ab)
    elif res.exit != 1:
        v.add("C05:exit-status-not-1|%s" % _kindclass(kind, pos, case), det)
    if not err.strip():
        v.add("C05:no-diagnostic|%s" % _kindclass(kind, pos, case), det)
    # oracle 1: victims untouched (log + snapshot)
    vict_files = set()
    for i in allvict:
        for f in trees[i]["reach"]:
            vict_files.add(os.path.normpath(f))
        vict_files.add(os.path.normpath(trees[i]["base"]))
    surv_files = {os.path.normpath(f) for i in survivors for f in trees[i]["reach"]}

    def surv_owned(p):
        """a file a surviving root reaches (it may live in a failing root's directory: src/main.rs and src/lib.rs),
        or the .bk / .tmp sibling of one"""
        p = os.path.normpath(p)
        if p in surv_files:
            return True
        stem, ext = os.path.splitext(p)
        return ext in (".bk", ".tmp") and any(os.path.splitext(f)[0] == stem for f in surv_files)

    for e in res.muts():
        for p in (e.path, e.path2):
            if isinstance(p, str) and os.path.basename(p).startswith("rustc-ice"):
                continue  # dropped into the cwd by rustc's ICE hook on any panic; not a source file
            if isinstance(p, str) and _under(p, _terr(trees, allvict)) and not surv_owned(p):
                v.add("C05:victim-tree-mutated|%s" % e.op, "%s: %s ; %s" % (tag, e.raw, det))
    for p in diff:
        if _under(p, _terr(trees, allvict)) and not os.path.basename(p).startswith("rustc-ice") and not surv_owned(p):
            v.add("C05:victim-tree-changed", "%s: %s before/after %s" % (tag, p, diff[p]))
    # oracle 3: survivors processed exactly as without the victim
    if mode in ("files", "backup"):
        for i in survivors:
            for f in trees[i]["reach"]:
                cur = core.read_rel(sc.root, f)
                if cur != ref_files.get(f):
                    orig = core.file_bytes(world["files"][f])
                    what = "left unformatted" if cur == orig else "holds neither original nor complete formatted text"
                    cls = "C05:survivor-not-formatted" if cur == orig else "C05:incomplete-write"
                    v.add("%s|%s" % (cls, _kindclass(kind, pos, case)), "%s: %s %s ; %s" % (tag, f, what, det), file=f)
        if margs == ["-l"] and survivors and res.stdout != ref_out:
            v.add("C05:survivor-output-differs|-l", "%s: stdout %r vs %r" % (det, res.stdout[:200], ref_out[:200]))
    else:
        if survivors and res.stdout != ref_out:
            v.add("C05:survivor-output-differs|%s|%s" % (mode, _kindclass(kind, pos, case)),
                  "%s: stdout differs from the run without the victim (%d vs %d bytes)" % (det, len(res.stdout), len(ref_out)))
        if not survivors and kind == "configpath" and res.stdout.strip() and mode in ("stdout", "check"):
            v.add("C05:output-for-victim", "%s: stdout=%r" % (det, res.stdout[:200]))
    # oracle 5: nothing outside the survivors' trees is written
    allowed_bases = _terr(trees, survivors)
    for sh, users in (case.get("shared") or {}).items():
        if set(users) & set(survivors):
            allowed_bases.append(os.path.dirname(sh))
            if set(users) & set(allvict):
                v.probe("shared-file-of-victim-and-survivor")
    for p in diff:
        if os.path.basename(p).startswith("rustc-ice"):
            continue
        if not (_under(p, allowed_bases) or surv_owned(p)) or mode not in ("files", "backup"):
            if not _under(p, _terr(trees, allvict)):
                v.add("C05:foreign-path-written", "%s: %s" % (tag, p))
    if len(order) > 1 and order.index(sorted(allvict)[0]) < len(order) - 1 and survivors:
        v.probe("survivor-after-failing-root")
    if v.sample is None:
        v.sample = {"files": sorted(world["files"]), "argv": inv["argv"], "plan": plan, "kind": kind, "pos": pos,
                    "status": res.status(), "stderr": err[:200]}


def _kindclass(kind, pos, case):
    t = [t for t in case["trees"] if pos in t["reach"]]
    where = "root" if t and t[0]["root"] == pos else "module"
    k = kind
    if kind == "badconfig":
        k = "badconfig-%d" % ((case["sub"] // 2) % 6 if case["sub"] < 900 else 6 + case["sub"] % 2)
    if kind == "panic":
        k = "panic-" + PANIC_SITES[case["sub"] % len(PANIC_SITES)]
    if kind == "open-errno":
        k = "open-errno"
    return "%s@%s" % (k, where)


def _terr(trees, idx):
    """the part of the world that belongs to these roots: their crate directories; for a twin root (a second root
    inside another root's directory) just the root file itself"""
    return [trees[i]["root"] if "twin" in trees[i].get("features", []) else trees[i]["base"] for i in idx]


def _under(p, bases):
    p = os.path.normpath(p)
    for b in bases:
        b = os.path.normpath(b)
        if p == b or p.startswith(b + "/"):
            return True
    return False


def shrinks(case):
    # fix the position
    if case["positions"] is None:
        for t in case["trees"]:
            pass
        v1 = case["victims"][0]
        for pos in case["trees"][v1]["reach"]:
            c = copy.deepcopy(case)
            c["positions"] = [pos]
            yield c
    if len(case["victims"]) > 1:
        c = copy.deepcopy(case)
        c["victims"] = case["victims"][:1]
        yield c
    # drop a surviving root
    for i in case["order"]:
        if i in case["victims"] or len(case["order"]) <= 1:
            continue
        c = copy.deepcopy(case)
        c["order"] = [j for j in case["order"] if j != i]
        yield c
    if case["abs"]:
        c = copy.deepcopy(case)
        c["abs"] = False
        yield c
    if case["cwd"] != ".":
        c = copy.deepcopy(case)
        c["cwd"] = "."
        yield c
    for f in list(case["world"]["files"]):
        if f.endswith("rustfmt.toml"):
            c = copy.deepcopy(case)
            del c["world"]["files"][f]
            yield c
