"""C14 -- configuration is resolved with the documented precedence.

Generator = reference model: a directory chain with config files at several
levels, home / XDG configs, CLI overrides; the model says which file is in force
for each probe and what the effective option set is.  Oracles are differential:
the real multi-file invocation vs a fresh single-file run that is *given* the
model's effective options explicitly.
"""
import copy
import os
import re

from .. import core, gen_config, prng
from ..engine import Verdict
from .c06 import parse_stdout_sections

ID = "C14"
LEVEL = "exploration"
RULE = ("world = directory chain of depth 0-3 (+ sibling) with rustfmt.toml / .rustfmt.toml at drawn levels (a "
        "directory named like a config included), optional $HOME and $XDG_CONFIG_HOME configs, HOME unset; 1-4 probe "
        "files in different directories; one invocation naming them in a drawn order with a drawn subset of --config "
        "k=v[,k=v], --config-path FILE|DIR, --edition, --style-edition; oracles: per-probe bytes and --print-config "
        "dump vs a fresh single-file run with the model's effective options in one explicit file / all on the command "
        "line; width limits vs max_width; dump fixpoint; unreadable candidate is an error; three hash seeds. "
        "distinct_nontrivial = distinct (op,path,result) trace signatures of the multi-file runs.")
ASSUMPTIONS = [
    "the reference model of discovery (nearest ancestor, dotted name first, then $HOME, then the user config dir; --config-path replaces it; CLI on top; style_edition > version > edition) is the documented one; a probe whose reference run fails is skipped, never reported",
    "emission options (make_backup, emit_mode) and flag-backed options are not generated in config files",
    "deprecated aliases are never generated together with their successors in one world",
]
COMPONENTS = {
    "rustfmt": "real (rebuilt from /repo working tree, dev profile, --cfg rustfmt_verif)",
    "file system / env": "real tmpfs behind simfs; sealed: config probes outside the world answer ENOENT; HOME/XDG simulated",
    "hash seed": "simulated (three seeds per world)", "clock": "simulated",
}

DIRS = ["p", "p/a", "p/a/b", "p/a/b/c", "p/s", "."]


NESTED = '''/// ```
/// fn doc() {
///     foo(aaaaaaaaaaaaaaaaaaaaa, bbbbbbbbbbbbbbbbbbbbb, ccccccccccccccccccccc);
/// }
/// ```
mod m {
    macro_rules! mac {
        () => {
            foo(aaaaaaaaaaaaaaaaaaaaa, bbbbbbbbbbbbbbbbbbbbb, ccccccccccccccccccccc);
        };
    }
}
'''
EMITTER_OPTS = [("emit_mode", '"Stdout"'), ("emit_mode", '"Json"'), ("emit_mode", '"Checkstyle"'), ("make_backup", "true"),
                ("print_misformatted_file_names", "true"), ("emit_mode", '"Diff"'), ("emit_mode", '"Coverage"')]


def generate(rng, tier):
    nr = prng.Rng(prng.mix(rng.seed, "c14-flag-and-config"))  # a side stream: the main stream stays what it was
    if nr.chance(4):
        # lane F: one key given both through its dedicated flag and through --config, with different values.  Which of
        # the two wins is not part of the property; that the defaults of the unset options follow the value that ends
        # up in force is
        key = nr.choice(["edition", "style_edition"])
        fv, iv = nr.sample(["2015", "2018", "2021", "2024"], 2)
        d = nr.choice(["p", "p/a"])
        files = {os.path.join(d, "probe0.rs"): "use x::{a10, a2, A1};\n" + gen_config.PROBE, "home/.keep": ""}
        if nr.chance(40):
            files[os.path.join(d, nr.choice(["rustfmt.toml", ".rustfmt.toml"]))] = nr.choice(["max_width = 80\n", "tab_spaces = 2\n", 'version = "One"\n', 'version = "Two"\n'])
        return {"lane": "flagboth", "world": {"files": files}, "probe": os.path.join(d, "probe0.rs"), "key": key, "flag_value": fv,
                "config_value": iv, "config_first": nr.chance(50), "cwd": nr.choice([".", d]), "hashseed": nr.below(1 << 32)}
    if nr.chance(3):
        # lane D: the dump of the defaults (and the minimal dump), printed and written to a path -- a fresh one and one
        # that holds an older, longer file
        return {"lane": "defaultdump", "world": {"files": {"p/probe0.rs": gen_config.PROBE, "home/.keep": "", "out/.keep": "",
                "out/old.toml": "# " + "an older dump " * nr.range(150, 400) + "\nmax_width = 40\nhard_tabs = true\n",
                "p/rustfmt.toml": nr.choice(["max_width = 80\n", "tab_spaces = 2\nhard_tabs = true\n", ""])}},
                "cwd": nr.choice([".", "p"]), "hashseed": nr.below(1 << 32)}
    if rng.chance(4):
        # lane E: an option that steers the emitter, in the nearest rustfmt.toml versus the same file named with
        # --config-path: where the result goes (standard output, the file, a backup) must be the same
        k, val = rng.choice(EMITTER_OPTS)
        d = rng.choice(["p", "p/a"])
        cfgname = rng.choice(["rustfmt.toml", ".rustfmt.toml"])
        files = {os.path.join(d, cfgname): "unstable_features = true\n%s = %s\n" % (k, val),
                 os.path.join(d, "probe0.rs"): gen_config.PROBE, "home/.keep": ""}
        return {"lane": "emitter", "world": {"files": files}, "cfg": os.path.join(d, cfgname), "probe": os.path.join(d, "probe0.rs"),
                "opt": "%s=%s" % (k, val.strip('"')), "cwd": rng.choice([".", d]), "hashseed": rng.below(1 << 32)}
    files = {}
    configs = {}  # rel path -> opts
    linked = {}   # config path that is a symlink -> its target
    used_keys = set()

    def add_config(path, n=None):
        exclude = set()
        # never an alias and its successor anywhere in one world
        for a, (succ, _) in gen_config.ALIASES.items():
            if succ in used_keys:
                exclude.add(a)
            if a in used_keys:
                exclude.add(succ)
        opts = gen_config.draw_opts(rng, n or rng.range(1, 5), exclude=exclude)
        for k in list(opts):
            if k in gen_config.ALIASES and gen_config.ALIASES[k][0] in used_keys:
                del opts[k]
        used_keys.update(opts)
        configs[path] = opts
        if rng.chance(12):
            # the config file is a symbolic link to a file shared from elsewhere
            tgt = "sharedcfg/cfg%d.toml" % len(configs)
            linked[path] = tgt
            files[path] = {"symlink": os.path.relpath(tgt, os.path.dirname(path) or ".")}
            files[tgt] = gen_config.render(opts)
        else:
            files[path] = gen_config.render(opts)

    depth = rng.range(0, 3)
    chain = ["p", "p/a", "p/a/b", "p/a/b/c"][: depth + 1]
    levels = chain + (["p/s"] if rng.chance(40) else []) + (["."] if rng.chance(15) else [])
    bare = rng.chance(20)  # no project config anywhere: the per-user fallbacks decide
    for d in levels:
        k = rng.below(100) if not bare else 99
        if k < 40:
            add_config(os.path.normpath(os.path.join(d, "rustfmt.toml")))
        elif k < 55:
            add_config(os.path.normpath(os.path.join(d, ".rustfmt.toml")))
        elif k < 65:
            add_config(os.path.normpath(os.path.join(d, "rustfmt.toml")))
            add_config(os.path.normpath(os.path.join(d, ".rustfmt.toml")))
        elif k < 70:
            files[os.path.normpath(os.path.join(d, "rustfmt.toml", "placeholder"))] = "x\n"  # a directory
    home, xdg, env = "home", None, {}
    hk = rng.below(100)
    if hk < 25:
        add_config("home/" + rng.choice([".rustfmt.toml", "rustfmt.toml"]))
    elif hk < 35:
        add_config("home/.config/rustfmt/" + rng.choice([".rustfmt.toml", "rustfmt.toml"]))
    elif hk < 45:
        xdg = "xdg"
        env["XDG_CONFIG_HOME"] = "$ROOT/xdg"
        add_config("xdg/rustfmt/rustfmt.toml")
        if rng.chance(40):
            add_config("home/.config/rustfmt/rustfmt.toml")  # shadowed by XDG_CONFIG_HOME
    elif hk < 52:
        home = None
        env["HOME"] = None
    elif hk < 62:
        # both fallback locations populated: the home directory wins over the user config directory
        add_config("home/" + rng.choice([".rustfmt.toml", "rustfmt.toml"]))
        if rng.chance(50):
            add_config("home/.config/rustfmt/" + rng.choice([".rustfmt.toml", "rustfmt.toml"]))
        else:
            xdg = "xdg"
            env["XDG_CONFIG_HOME"] = "$ROOT/xdg"
            add_config("xdg/rustfmt/rustfmt.toml")
    elif hk < 72:
        # the inputs live inside $HOME; the only config is in the user config directory
        home = "p"
        env["HOME"] = "$ROOT/p"
        bare = True
        for path in [q for q in list(configs) if not q.startswith("cfgs/")]:
            del configs[path]
            files.pop(path, None)
            tgt = linked.pop(path, None)
            if tgt:
                files.pop(tgt, None)
        if rng.chance(50):
            add_config("p/.config/rustfmt/rustfmt.toml")
        else:
            xdg = "xdg"
            env["XDG_CONFIG_HOME"] = "$ROOT/xdg"
            add_config("xdg/rustfmt/" + rng.choice([".rustfmt.toml", "rustfmt.toml"]))
    files["home/.keep"] = ""
    nprobe = rng.range(1, 4)
    pdirs = rng.sample(chain + ["p/s"] * (1 if "p/s" in levels or rng.chance(30) else 0) or ["p"], min(nprobe, len(chain) + 1)) or ["p"]
    probes = []
    for i, d in enumerate(pdirs[:nprobe]):
        rel = os.path.join(d, "probe%d.rs" % i)
        files[rel] = gen_config.PROBE
        probes.append(rel)
    # make the c14a/c15a shape likely: outer file immediately before a nested one
    order = rng.shuffle(list(range(len(probes))))
    if rng.chance(50):
        order = sorted(order, key=lambda i: probes[i].count("/"))
    cli = {"config": {}, "config_path": None, "edition": None, "style_edition": None}
    # (drawn before the command-line options so that the alias/successor exclusion sees these files too)
    if rng.chance(15):
        add_config("cfgs/explicit.toml")
        add_config("cfgs/dir/rustfmt.toml")
        cli["config_path"] = rng.choice(["cfgs/explicit.toml", "cfgs/dir"])
    if rng.chance(45):
        ex = set()
        for a, (succ, _) in gen_config.ALIASES.items():
            if succ in used_keys:
                ex.add(a)
            if a in used_keys:
                ex.add(succ)
        cli["config"] = gen_config.draw_opts(rng, rng.range(1, 4), exclude=ex)
        if rng.chance(20):
            # several keys in one flag whose order of application matters if it is not principled
            cli["config"]["max_width"] = rng.choice([120, 140])
            for k in rng.sample(gen_config.WIDTHS[:6], rng.range(1, 2)):
                cli["config"][k] = rng.choice([105, 110, 118])
        for k in list(cli["config"]):
            if k in gen_config.ALIASES and gen_config.ALIASES[k][0] in used_keys:
                del cli["config"][k]
    if rng.chance(15):
        cli["edition"] = rng.choice(["2015", "2018", "2021", "2024"])
    if rng.chance(15):
        cli["style_edition"] = rng.choice(["2015", "2018", "2021", "2024"])
    # the relative precedence of `--config edition=..` and `--edition` is not part of the property
    if "edition" in cli["config"]:
        cli["edition"] = None
    if "style_edition" in cli["config"]:
        cli["style_edition"] = None
    # keep every (width, max_width) combination that can come into force valid, so that clamping of an
    # invalid combination (a gray area) never decides an oracle: a source may exceed 50 only up to its own
    # max_width, and files stay <= 50 whenever the command line sets max_width
    def sanitise(opts, cap_if_no_own):
        own = opts.get("max_width")
        cap = own if own is not None else cap_if_no_own
        for k in list(opts):
            if k in gen_config.WIDTHS and opts[k] > cap:
                opts[k] = rng.choice([x for x in gen_config.POOL[k] if x <= cap] or [cap])
    cli_mw = "max_width" in cli["config"]
    sanitise(cli["config"], 50)
    for path, opts in configs.items():
        if cli_mw:
            for k in list(opts):
                if k in gen_config.WIDTHS and opts[k] > 50:
                    opts[k] = rng.choice([x for x in gen_config.POOL[k] if x <= 50] or [50])
        else:
            sanitise(opts, 100)
        files[linked.get(path, path)] = gen_config.render(opts)
    lane = "unreadable" if rng.chance(12) else "normal"
    # how the inputs are spelled: relative to the working directory, absolute, absolute with a detour through a
    # directory that has a config of its own and is no ancestor of the file (`zdet/sub/../../p/a/x.rs`), absolute
    # through a symbolic link to the file's directory (the ancestors that count are the real ones)
    absmode = rng.choice([False] * 7 + [True, True, "dots", "dots", "linkdir"])
    if absmode == "dots":
        files["zdet/sub/.keep"] = ""
        files["zdet/rustfmt.toml"] = "hard_tabs = true\nmax_width = 41\n"
        files["zdet/sub/.rustfmt.toml"] = "hard_tabs = true\nmax_width = 43\n"
    elif absmode == "linkdir":
        for p in probes:
            d = os.path.dirname(p)
            files["zl_" + d.replace("/", "_")] = {"symlink": d}
    return {
        "world": {"files": files}, "configs": configs, "probes": probes, "order": order, "cli": cli,
        "home": home, "xdg": xdg, "env": env, "cwd": rng.choice([".", ".", "p"]), "abs": absmode,
        "hashseed": rng.below(1 << 32), "lane": lane,
    }


def prepare(tier):
    core.build_driver()


SETTER_KEYS = {"max_width", "tab_spaces", "fn_call_width", "attr_fn_like_width", "struct_lit_width", "struct_variant_width",
               "array_width", "chain_width", "single_line_if_else_max_width", "single_line_let_else_max_width", "hard_tabs",
               "reorder_imports", "merge_imports", "hide_parse_errors", "show_parse_errors"}


def api_text(sc, v, case, name, eff, setters=False):
    """the probe formatted through the library API with the effective options set via Config::override_value (or, with
    setters=True, through the typed setter calls `config.set().option(value)`)"""
    import json as _json
    order = sorted(eff, key=lambda k: (0 if k == "max_width" else 1 if k == "use_small_heuristics" else 2, k))
    steps = [{"file": os.path.join(sc.root, "zref", name), "discover": False, "config_path": None,
              ("setters" if setters else "overrides"): [[k, gen_config.cli_value(eff[k])] for k in order]}]
    with open(os.path.join(sc.top, "script.json"), "w") as f:
        _json.dump({"emit": "stdout", "steps": steps}, f)
    res = core.run_inv(sc, {"tool": core.DRIVER, "argv": [os.path.join(sc.top, "script.json")], "hashseed": case["hashseed"],
                            "env": {"HOME": "$ROOT/zhome"}})
    v.account(res, nontrivial=False)
    try:
        doc = _json.loads(core.text_of(res.stdout).rstrip("\n").split("\n")[-1])
    except ValueError:
        return None
    if doc["steps"][0].get("error"):
        return None
    return parse_stdout_sections(doc["all"].encode("utf-8"), sc.root, sc.root, {"zref/" + name}).get("zref/" + name)


def cli_args(cli, root_prefix="$ROOT/"):
    a = []
    if cli["config"]:
        a += ["--config", ",".join("%s=%s" % (k, gen_config.cli_value(v)) for k, v in cli["config"].items())]
    if cli["config_path"]:
        a += ["--config-path", root_prefix + cli["config_path"]]
    if cli["edition"]:
        a += ["--edition", cli["edition"]]
    if cli["style_edition"]:
        a += ["--style-edition", cli["style_edition"]]
    return a


def effective(case, probe):
    """(config file in force, effective explicit options after aliases -> successors)"""
    wf = {p for p, s in case["world"]["files"].items() if not (isinstance(s, dict) and s.get("dir"))}
    cfgfile = gen_config.resolve(wf, os.path.dirname(probe), case["home"], case["xdg"], case["cli"]["config_path"])
    eff = {}
    if cfgfile is not None:
        eff.update(gen_config.successors(case["configs"][cfgfile]))
    eff.update(gen_config.successors(case["cli"]["config"]))
    if case["cli"]["edition"]:
        eff["edition"] = case["cli"]["edition"]
    if case["cli"]["style_edition"]:
        eff["style_edition"] = case["cli"]["style_edition"]
    return cfgfile, eff


def parse_dump(text):
    d = {}
    for line in text.split("\n"):
        m = re.match(r"^(\w+) = (.*)$", line)
        if m:
            d[m.group(1)] = m.group(2)
    return d


def _lane_emitter(case):
    v = Verdict()
    with core.Scratch() as sc:
        outcomes = []
        for via in ("discovered", "config-path"):
            sc.fresh_world(case["world"])
            snap0 = core.snapshot(sc.root)
            argv = ["--color", "never"] + (["--config-path", "$ROOT/" + case["cfg"]] if via == "config-path" else []) + [os.path.relpath(case["probe"], case["cwd"])]
            r = core.run_inv(sc, {"argv": argv, "cwd": case["cwd"], "env": {"HOME": "$ROOT/home"}, "hashseed": case["hashseed"]})
            v.account(r)
            changed = sorted(core.snap_diff(snap0, core.snapshot(sc.root)))
            ab = core.abnormal(r)
            if ab:
                v.add("C14:emitter-option|abnormal|%s" % ab, "%s via %s: status=%s" % (case["opt"], via, r.status()))
            outcomes.append((r.stdout.replace(sc.root.encode(), b"$ROOT"), changed, r.exit))
        a, b = outcomes
        if a != b:
            what = "changed files %s vs %s" % (a[1], b[1]) if a[1] != b[1] else "standard output (%d vs %d bytes)" % (len(a[0]), len(b[0])) if a[0] != b[0] else "status %s vs %s" % (a[2], b[2])
            v.add("C14:discovered-vs-config-path|emitter-option", "%s in the nearest %s and the same file through --config-path behave differently: %s" % (case["opt"], os.path.basename(case["cfg"]), what))
        v.probe("emitter-option:" + case["opt"].split("=")[0])
        v.sample = {"lane": "emitter", "opt": case["opt"]}
    return v


def _lane_flagboth(case):
    v = Verdict()
    key, fv, iv = case["key"], case["flag_value"], case["config_value"]
    flag = "--" + key.replace("_", "-")
    probe = os.path.relpath(case["probe"], case["cwd"])
    with core.Scratch() as sc:
        sc.fresh_world(case["world"])

        def run(args):
            r = core.run_inv(sc, {"argv": ["--color", "never"] + args + [probe], "cwd": case["cwd"], "env": {"HOME": "$ROOT/home"}, "hashseed": case["hashseed"]})
            v.account(r)
            ab = core.abnormal(r)
            if ab:
                v.add("C14:flag-and-config-same-key|abnormal|%s" % ab, "argv=%s status=%s" % (args, r.status()))
            return r
        both = ([ "--config", "%s=%s" % (key, iv), flag, fv] if case["config_first"] else [flag, fv, "--config", "%s=%s" % (key, iv)])
        rb = run(both + ["--print-config", "current"])
        if rb.exit != 0:
            v.probe("flagboth-rejected")
            return v
        eff = parse_dump(core.text_of(rb.stdout)).get(key, "").strip('"')
        det = "%s %s together with --config %s=%s (effective %s = %r)" % (flag, fv, key, iv, key, eff)
        if eff not in (fv, iv):
            v.add("C14:flag-and-config-same-key|value-from-nowhere", det)
            return v
        ra = run([flag, eff, "--print-config", "current"])
        if ra.exit == 0 and ra.stdout != rb.stdout:
            da, db = parse_dump(core.text_of(ra.stdout)), parse_dump(core.text_of(rb.stdout))
            diff = sorted(k for k in set(da) | set(db) if da.get(k) != db.get(k))
            v.add("C14:flag-and-config-same-key|effective-config", "%s: the printed configuration differs from the one for %s %s alone in %s" % (det, flag, eff, diff[:6]))
        tb = run(both + ["--emit", "stdout"])
        ta = run([flag, eff, "--emit", "stdout"])
        if tb.exit == 0 and ta.exit == 0 and ta.stdout != tb.stdout:
            v.add("C14:flag-and-config-same-key|text", "%s: the source is formatted differently from %s %s alone" % (det, flag, eff))
        v.probe("flag-and-config:" + key)
        v.sample = {"lane": "flagboth", "argv": both, "effective": eff}
    return v


def _lane_defaultdump(case):
    v = Verdict()
    with core.Scratch() as sc:
        def run(args, cwd=None):
            r = core.run_inv(sc, {"argv": args, "cwd": cwd or case["cwd"], "env": {"HOME": "$ROOT/home"}, "hashseed": case["hashseed"]})
            v.account(r)
            ab = core.abnormal(r)
            if ab:
                v.add("C14:default-dump|abnormal|%s" % ab, "argv=%s status=%s" % (args, r.status()))
            return r
        for what, extra in (("default", []), ("minimal", ["--config-path", "$ROOT/p/rustfmt.toml"])):
            sc.fresh_world(case["world"])
            r0 = run(["--print-config", what] + extra)
            if r0.exit != 0:
                v.probe("dump-rejected")
                continue
            S = r0.stdout
            for target in ("out/fresh.toml", "out/old.toml"):
                rt = run(["--print-config", what, "$ROOT/" + target] + extra)
                got = core.read_rel(sc.root, target)
                if rt.exit == 0 and got != S:
                    v.add("C14:dump-file-vs-printed|%s|%s" % (what, "over-existing-file" if target.endswith("old.toml") else "fresh-path"),
                          "--print-config %s PATH wrote %d bytes, the same dump on standard output is %d bytes (PATH %s)" % (
                              what, len(got or b""), len(S), "held an older, longer file" if target.endswith("old.toml") else "did not exist"))
            if what == "default":
                # the dump re-parses to the configuration it describes: the defaults
                with open(os.path.join(sc.root, "out", "printed.toml"), "wb") as f:
                    f.write(S)
                ra = run(["--print-config", "current", "$ROOT/out/x.rs", "--config-path", "$ROOT/out/printed.toml"])
                rb = run(["--print-config", "current", "$ROOT/out/x.rs", "--config-path", "$ROOT/out/.keep"])
                if ra.exit == 0 and rb.exit == 0 and ra.stdout != rb.stdout:
                    da, db = parse_dump(core.text_of(ra.stdout)), parse_dump(core.text_of(rb.stdout))
                    v.add("C14:default-dump-not-the-defaults", "reloading the printed defaults changes %s" % sorted(k for k in set(da) | set(db) if da.get(k) != db.get(k))[:6])
        v.probe("default-dump")
        v.sample = {"lane": "defaultdump"}
    return v


def execute(case):
    if case.get("lane") == "defaultdump":
        return _lane_defaultdump(case)
    if case.get("lane") == "emitter":
        return _lane_emitter(case)
    if case.get("lane") == "flagboth":
        return _lane_flagboth(case)
    v = Verdict()
    probes = case["probes"]
    cli = case["cli"]
    with core.Scratch() as sc:
        world = copy.deepcopy(case["world"])
        world["files"]["zref/.keep"] = ""
        world["files"]["zhome/.keep"] = ""
        sc.fresh_world(world)
        env = dict(case["env"])
        def parg(p):
            if case["abs"] == "dots":
                return "$ROOT/zdet/sub/../../" + p
            if case["abs"] == "linkdir":
                return "$ROOT/zl_%s/%s" % (os.path.dirname(p).replace("/", "_"), os.path.basename(p))
            return ("$ROOT/" + p) if case["abs"] else os.path.relpath(p, case["cwd"])
        margv = ["--emit", "stdout"] + cli_args(cli) + [parg(probes[i]) for i in case["order"]]
        inv = {"argv": margv, "cwd": case["cwd"], "env": env, "hashseed": case["hashseed"]}
        effs = {p: effective(case, p) for p in probes}

        if case["lane"] == "unreadable":
            # the config candidate in force for the first probe cannot be stat'ed / opened
            p0 = probes[case["order"][0]]
            cfgfile = effs[p0][0]
            if cfgfile is None or cli["config_path"]:
                v.probe("unreadable-lane-not-applicable")
                return v
            op = "stat" if case["hashseed"] % 2 else "open"
            # (EACCES, EIO, or -- for the open only -- ENOENT: the file was found and is gone a moment later)
            en = [13, 5, 2][case["hashseed"] % 3] if op == "open" else (13 if case["hashseed"] % 3 else 5)
            inv["plan"] = ["* %s 1 %s errno %d" % (op, os.path.normpath(cfgfile), en)]
            v.planned("errno")
            snap0 = core.snapshot(sc.root)
            r = core.run_inv(sc, inv)
            fired = any(e.fault for e in r.events)
            v.account(r, nontrivial=fired)
            if not fired:
                v.probe("fault-not-reached")
                return v
            v.fired("errno")
            ab = core.abnormal(r)
            secs = parse_stdout_sections(r.stdout, os.path.join(sc.root, case["cwd"]), sc.root, set(probes))
            if ab:
                v.add("C14:unreadable-config|abnormal|%s" % ab, "argv=%s status=%s stderr=%r" % (margv, r.status(), core.text_of(r.stderr)[:300]))
            elif r.exit != 1:
                v.add("C14:unreadable-config-not-an-error", "config %s failed with an I/O error but exit=%s; stderr=%r" % (cfgfile, r.status(), core.text_of(r.stderr)[:200]))
            if p0 in secs:
                v.add("C14:unreadable-config-fallthrough", "%s was formatted although its config %s could not be read" % (p0, cfgfile))
            if core.snap_diff(snap0, core.snapshot(sc.root)):
                v.add("C14:unreadable-config-writes", "files changed")
            v.sample = {"lane": "unreadable", "argv": margv, "plan": inv["plan"], "status": r.status()}
            return v

        # legal partial reads / EINTR on every file read (config files included) in a third of the worlds
        sr = case["hashseed"] % 3
        if sr == 1:
            inv["plan"] = ["* read 0 * short 9,4,1,30"]
            v.planned("short")
        elif sr == 2 and case["hashseed"] % 2:
            inv["plan"] = ["* read 1 * eintr 1"]
            v.planned("eintr")
        r = core.run_inv(sc, inv)
        v.account(r)
        if inv.get("plan") and any("SHORT" in e.raw or e.fault for e in r.events):
            v.fired("short" if sr == 1 else "eintr")
        ab = core.abnormal(r)
        if ab:
            v.add("C14:abnormal|%s" % ab, "argv=%s status=%s stderr=%r" % (margv, r.status(), core.text_of(r.stderr)[:300]))
            return v
        rejected = r.exit != 0
        if rejected:
            v.probe("multi-run-rejected")
            v.info["rejected"] = 1
        secs = parse_stdout_sections(r.stdout, os.path.join(sc.root, case["cwd"]), sc.root, set(probes))
        # hash-seed independence
        for k in (1, 2):
            if rejected:
                break
            inv2 = dict(inv)
            inv2.pop("plan", None)
            inv2["hashseed"] = (case["hashseed"] + k * 7919) & 0xFFFFFFFF
            r2 = core.run_inv(sc, inv2)
            v.account(r2)
            if r2.stdout != r.stdout or r2.exit != r.exit:
                v.add("C14:hashseed-output",
                      "same invocation, hash seeds %d / %d: different output; argv=%s" % (inv["hashseed"], inv2["hashseed"], margv))
                break
        refenv = {"HOME": "$ROOT/zhome"}
        for p in probes:
            cfgfile, eff = effs[p]
            name = os.path.basename(p)
            with open(os.path.join(sc.root, "zref", name), "w") as f:
                f.write(gen_config.PROBE)
            with open(os.path.join(sc.root, "zref", "eff.toml"), "w") as f:
                f.write(gen_config.render(eff))
            rr = core.run_inv(sc, {"argv": ["--emit", "stdout", "--config-path", "$ROOT/zref/eff.toml", "zref/" + name],
                                   "env": refenv, "hashseed": case["hashseed"]})
            v.account(rr, nontrivial=False)
            if rr.exit != 0 or rr.signal:
                v.probe("reference-rejected")
                continue
            if rejected:
                # the explicit-config run accepts these options, so the discovered configuration was valid
                if p not in secs:
                    v.add("C14:valid-config-rejected", "%s: the invocation failed (exit %s, stderr %r) although its effective configuration %s is accepted when given explicitly; argv=%s" % (
                        p, r.status(), core.text_of(r.stderr)[:200], eff, margv), probe=p)
                continue
            rsec = parse_stdout_sections(rr.stdout, sc.root, sc.root, {"zref/" + name}).get("zref/" + name)
            got = secs.get(p)
            why = "config in force per model: %s; effective %s; argv=%s" % (cfgfile, eff, margv)
            if got is None:
                v.add("C14:probe-not-formatted", "%s has no section in the output; %s" % (p, why))
                continue
            if got != rsec:
                cls = "C14:bytes-vs-explicit-config"
                v.add(cls, "%s formatted differently from a run given the effective options explicitly; %s" % (p, why), probe=p)
            # same values all on the command line, no file
            if eff:
                with open(os.path.join(sc.root, "zref", "empty.toml"), "w") as f:
                    f.write("")
                rc = core.run_inv(sc, {"argv": ["--emit", "stdout", "--config-path", "$ROOT/zref/empty.toml", "--config",
                                               ",".join("%s=%s" % (k, gen_config.cli_value(x)) for k, x in eff.items()), "zref/" + name],
                                       "env": refenv, "hashseed": case["hashseed"]})
                v.account(rc, nontrivial=False)
                csec = parse_stdout_sections(rc.stdout, sc.root, sc.root, {"zref/" + name}).get("zref/" + name)
                if rc.exit == 0 and csec != rsec:
                    cls = "C14:file-vs-cli-same-values"
                    v.add(cls, "options %s give different bytes from a file and from --config" % eff, probe=p)
            # same values through the library API (Config::override_value)
            if eff and os.path.exists(core.DRIVER) and case["hashseed"] % 3 == 0:
                asec = api_text(sc, v, case, name, eff)
                if asec is not None:
                    v.probe("api-lane")
                    if asec != rsec:
                        v.add("C14:file-vs-api-same-values", "options %s give different bytes from a file and from the API" % eff, probe=p)
                if set(eff) <= SETTER_KEYS:
                    ssec = api_text(sc, v, case, name, eff, setters=True)
                    if ssec is not None:
                        v.probe("api-lane-typed-setters")
                        if ssec != rsec:
                            v.add("C14:file-vs-api-same-values|typed-setters", "options %s give different bytes from a file and from the typed setter API (config.set().option(value))" % eff, probe=p)
            # ---- print-config dumps
            dargv = ["--print-config", "current", parg(p)] + cli_args(cli)
            rd = core.run_inv(sc, {"argv": dargv, "cwd": case["cwd"], "env": env, "hashseed": case["hashseed"],
                                   "plan": [[], ["* write 0 @1 short 700,5,64"], ["* write 1 @1 eintr 1"], ["* write 0 @1 short 1"]][case["hashseed"] % 4]})
            v.account(rd, nontrivial=False)
            rrd = core.run_inv(sc, {"argv": ["--print-config", "current", "zref/" + name, "--config-path", "$ROOT/zref/eff.toml"],
                                    "env": refenv, "hashseed": case["hashseed"]})
            v.account(rrd, nontrivial=False)
            if rd.exit != 0 or rrd.exit != 0:
                if rd.exit != 0 and "out-of-range value" in core.text_of(rd.stderr):
                    v.add("C14:print-config-fails|out-of-range", "argv=%s stderr=%r" % (dargv, core.text_of(rd.stderr)[:200]))
                v.probe("dump-failed")
                continue
            if rd.stdout != rrd.stdout:
                a, b = parse_dump(core.text_of(rd.stdout)), parse_dump(core.text_of(rrd.stdout))
                dk = sorted(k for k in set(a) | set(b) if a.get(k) != b.get(k))
                v.add("C14:dump-vs-explicit-config|%s" % ",".join(dk[:4]), "%s: --print-config current differs from the explicit-config dump in %s; %s" % (p, {k: (a.get(k), b.get(k)) for k in dk[:6]}, why))
            dump = parse_dump(core.text_of(rd.stdout))
            mw = int(dump.get("max_width", "100"))
            over = [k for k in gen_config.WIDTHS if k in dump and dump[k].isdigit() and int(dump[k]) > mw]
            if over:
                explicit = [k for k in over if k in eff]
                cls = "C14:width-exceeds-max_width|" + ("explicit" if explicit else "heuristic-default")
                v.add(cls, "%s: max_width=%d but %s; %s" % (p, mw, {k: dump[k] for k in over}, why))
            # aliases show up as successors
            for k, x in list(cli["config"].items()) + (list(case["configs"][cfgfile].items()) if cfgfile else []):
                if k in gen_config.ALIASES:
                    succ, vm = gen_config.ALIASES[k]
                    want = eff.get(succ)
                    if want is not None and dump.get(succ, "").strip('"') != gen_config.cli_value(want):
                        v.add("C14:alias-not-mapped|%s" % k, "%s=%s in force but dump shows %s=%s" % (k, x, succ, dump.get(succ)))
            # fixpoint
            with open(os.path.join(sc.root, "zref", "dump.toml"), "wb") as f:
                f.write(rd.stdout)
            rf = core.run_inv(sc, {"argv": ["--print-config", "current", "zref/" + name, "--config-path", "$ROOT/zref/dump.toml"],
                                   "env": refenv, "hashseed": case["hashseed"]})
            v.account(rf, nontrivial=False)
            if rf.exit != 0 or rf.stdout != rd.stdout:
                a, b = dump, parse_dump(core.text_of(rf.stdout))
                dk = sorted(k for k in set(a) | set(b) if a.get(k) != b.get(k))
                cause = "heuristic-widths-above-max_width" if over and set(dk) <= set(gen_config.WIDTHS) else ",".join(dk[:4])
                v.add("C14:dump-not-fixpoint|%s" % cause, "%s: dump fed back through --config-path dumps differently in %s (exit %s)" % (p, {k: (a.get(k), b.get(k)) for k in dk[:6]}, rf.status()))
            elif case["hashseed"] % 2 == 0:
                # the dump is a fixpoint as a text; is it the same configuration?  A source with nested formatting
                # contexts (a macro body, a code block in a doc comment), which re-derive the widths from a smaller
                # page, must come out the same under the effective configuration and under its dump
                world_n = os.path.join(sc.root, "zref", "nested.rs")
                with open(world_n, "w") as f:
                    f.write(NESTED)
                outs = []
                for cfgp in ("eff.toml", "dump.toml"):
                    rn = core.run_inv(sc, {"argv": ["--emit", "stdout", "--config-path", "$ROOT/zref/" + cfgp, "zref/nested.rs"],
                                           "env": refenv, "hashseed": case["hashseed"]})
                    v.account(rn, nontrivial=False)
                    outs.append((rn.exit, rn.stdout))
                if outs[0][0] == 0 and outs[1][0] == 0 and outs[0][1] != outs[1][1]:
                    v.add("C14:dump-formats-differently|derived-widths", "%s: a source with nested contexts is formatted differently under the effective options %s and under their --print-config dump" % (p, eff), probe=p)
                v.probe("dump-vs-effective-formatting")
        nested = [p for p in probes if effs[p][0] and any(effs[q][0] and effs[q][0] != effs[p][0] and os.path.dirname(effs[p][0]).startswith(os.path.dirname(effs[q][0]) + "/") for q in probes)]
        if nested:
            v.probe("nested-configs-in-one-invocation")
        if any(effs[p][0] and effs[p][0].startswith(("home", "xdg")) for p in probes):
            v.probe("config-from-home-or-xdg")
        if any(k in gen_config.ALIASES for k in cli["config"]) or any(k in gen_config.ALIASES for c in case["configs"].values() for k in c):
            v.probe("deprecated-alias")
        v.sample = {"configs": case["configs"], "probes": probes, "argv": margv, "env": case["env"], "cwd": case["cwd"],
                    "in_force": {p: effs[p][0] for p in probes}}
    return v


def shrinks(case):
    if case.get("lane") in ("emitter", "flagboth", "defaultdump"):
        return
    cli = case["cli"]
    for k in list(cli["config"]):
        c = copy.deepcopy(case); del c["cli"]["config"][k]; yield c
    for k in ("edition", "style_edition", "config_path"):
        if cli[k]:
            c = copy.deepcopy(case); c["cli"][k] = None; yield c
    if len(case["probes"]) > 1:
        for i in range(len(case["probes"])):
            c = copy.deepcopy(case)
            keep = [j for j in range(len(case["probes"])) if j != i]
            c["probes"] = [case["probes"][j] for j in keep]
            c["order"] = [keep.index(j) for j in case["order"] if j != i]
            yield c
    for path in list(case["configs"]):
        if cli["config_path"] and path.startswith("cfgs/"):
            continue
        c = copy.deepcopy(case)
        del c["configs"][path]; del c["world"]["files"][path]
        yield c
        for k in list(case["configs"][path]):
            if len(case["configs"][path]) > 1:
                c = copy.deepcopy(case)
                del c["configs"][path][k]
                c["world"]["files"][path] = gen_config.render(c["configs"][path])
                yield c
    if case["abs"]:
        c = copy.deepcopy(case); c["abs"] = False; yield c
    if case["cwd"] != ".":
        c = copy.deepcopy(case); c["cwd"] = "."; yield c
