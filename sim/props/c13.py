"""C13 -- exactly the reachable, non-excluded files are formatted, each once.

Generator = reference model: an abstract module tree is drawn, rendered to a
directory tree, and the sets E (must be formatted), X (must not be touched) and
D (don't care) are computed from the abstract model with the language's rules
written down here -- never by parsing text.
"""
import copy
import os

from .. import core, gen_rust, prng
from ..engine import Verdict

ID = "C13"
LEVEL = "exploration"
RULE = ("world = abstract module tree (depth <= 4, <= 10 files: name.rs / name/mod.rs / #[path] / inline nesting / "
        "cfg_attr(path) / cfg_if! / cfg_match! / root with a sibling stem directory and nested-or-fallback children), "
        "decoy .rs files, skip markers (#[rustfmt::skip] mod, #![rustfmt::skip]), ignore globs incl. negations and "
        "non-leaf targets, @generated markers inside/after the search limit, skip_children, stdin, a file reached twice; "
        "root given relative / absolute / from another cwd; fault lane: missing / ambiguous / unreadable module; 3 hash "
        "seeds. distinct_nontrivial = distinct (op,path,result) signatures of the formatting runs.")
ASSUMPTIONS = [
    "module-resolution rules encoded in the generator are rustc's (default_submod_path / mod_dir_path) plus the fallback named by the property; constructs whose treatment the property leaves open go to the don't-care set",
    "every generated file is deliberately unformatted, so 'formatted' is observable as 'rewritten'",
    "the gitignore matcher in the driver is exact for the generated pattern vocabulary (basename literal, prefix_*.rs, dir/, and negations)",
]
COMPONENTS = {
    "rustfmt": "real (rebuilt from /repo working tree, dev profile, --cfg rustfmt_verif)",
    "file system": "real tmpfs behind the simfs interposer",
    "hash seed": "simulated (3 seeds)", "clock": "simulated",
}
NAMES = ["ma", "mb", "mc", "md", "me", "mf", "mg", "mh", "mi", "mj", "mk", "ml"]


def insert_decls(text, extra):
    """put extra declarations after the leading marker lines of a file (inner skip attribute, @generated comment,
    the numbered filler of the after-limit marker), so that the markers keep their line numbers"""
    lines = text.split("\n")
    k = 0
    while k < len(lines) and (lines[k].startswith("#![rustfmt::skip]") or lines[k].startswith("// @generated") or
                              (lines[k].startswith("// ") and lines[k][3:4].isdigit())):
        k += 1
    return "\n".join(lines[:k] + extra.rstrip("\n").split("\n") + lines[k:])


class Model:
    def __init__(self):
        self.files = {}      # rel -> text
        self.status = {}     # rel -> "E" | "X" | "D"
        self.why = {}
        self.feats = set()
        self.order = []


def fnmatch_simple(pat, name):
    if "*" in pat:
        pre, _, suf = pat.partition("*")
        return name.startswith(pre) and name.endswith(suf) and len(name) >= len(pre) + len(suf)
    return pat == name


def ignored(patterns, relpath):
    """gitignore semantics of `matched_path_or_any_parents` for the generated vocabulary;
    relpath is relative to the config directory"""
    parts = relpath.split("/")
    for k in range(len(parts), 0, -1):
        cand = parts[:k]
        is_dir = k < len(parts)
        base = cand[-1]
        verdict = None
        for p in patterns:
            neg = p.startswith("!")
            q = p[1:] if neg else p
            dironly = q.endswith("/")
            q = q.rstrip("/")
            if dironly and not is_dir:
                continue
            if fnmatch_simple(q, base):
                verdict = not neg
        if verdict is not None:
            return verdict
    return False


def generate(rng, tier):
    m = Model()
    base = "c"
    feats = set(rng.subset(["modrs", "path", "inline", "cfg_if", "cfg_match", "cfg_attr_path", "decoys", "skipmod",
                            "innerskip", "ignore", "generated", "twice", "stemdir", "adversarial", "symlinkmod", "symlinkdir", "fallbacksib", "skiptwice", "ignoredotdot", "twiceowner", "altskipped"], 45))
    lane = rng.choice(["normal"] * 7 + ["skip_children", "stdin", "fault"])
    if lane == "fault":
        feats.discard("adversarial")  # a decoy at the fallback location would make a missing module resolvable
    root_name = rng.choice(["main.rs", "lib.rs", "root.rs", "src/main.rs", "src/lib.rs"])
    root = os.path.join(base, root_name)
    names = list(NAMES)
    budget = [rng.range(1, 9 if tier != "thorough" else 14)]
    ignore_pats = []
    generated_cfg = "generated" in feats and rng.chance(70)
    tags = {}
    cur_kind = [None]
    decls_for_fault = []  # (declaring file, name, target) plain declarations usable by the fault lane
    leafs = []

    def body(tag=""):
        return gen_rust.unformatted(rng, 1 + rng.below(2))

    def place(childdir, name):
        if "modrs" in feats and rng.chance(40):
            m.feats.add("modrs")
            return os.path.join(childdir, name, "mod.rs"), os.path.join(childdir, name)
        return os.path.join(childdir, name + ".rs"), os.path.join(childdir, name)

    placed = []  # (declaring file, its kind, child name, child file) for children found by the default rules

    def kind_of(rel, is_root):
        if is_root:
            return "root"
        b = os.path.basename(rel)
        if b == "mod.rs":
            return "modrs"
        if b.startswith(("p_", "alt_")):
            return "path"
        return "flat"

    def gen_file(rel, childdir, depth, status, is_root=False):
        """status: inherited status for this file before its own markers ("E" or "D")"""
        cur_kind[0] = kind_of(rel, is_root)
        header = ""
        own = status
        descend_status = status
        if not is_root and "innerskip" in feats and rng.chance(12) and status == "E":
            header += "#![rustfmt::skip]\n"
            m.feats.add("innerskip")
            own = "X"
            descend_status = "D"  # a non-root file with the inner attribute is not descended into
            m.why[rel] = "inner skip attribute"
        if "generated" in feats and rng.chance(15) and own == "E":
            pos = rng.choice(["in", "in", "after"])
            if pos == "in":
                header = "// @generated by tool\n" + header
                if generated_cfg:
                    own = "X"
                    m.why[rel] = "@generated within the search limit and format_generated_files=false"
                m.feats.add("generated-in-limit")
            else:
                header = header + "// 1\n// 2\n// 3\n// 4\n// 5\n// 6 @generated too late\n"
                m.feats.add("generated-after-limit")
        lines = []
        nchild = 0
        if depth < 4 and budget[0] > 0:
            nchild = rng.range(1 if is_root else 0, min(3, budget[0]))
        for _ in range(nchild):
            if budget[0] <= 0 or not names:
                break
            budget[0] -= 1
            lines.append(gen_decl(rel, childdir, names.pop(0), depth, descend_status))
        m.files[rel] = header + "".join(lines) + body()
        m.status[rel] = own
        m.order.append(rel)
        if nchild == 0:
            leafs.append(rel)

    def gen_decl(decl_file, childdir, name, depth, st):
        k = rng.below(100)
        ddir = os.path.dirname(decl_file)
        if "skipmod" in feats and k < 8 and st == "E":
            m.feats.add("skipmod")
            target, cdir = place(childdir, name)
            gen_file(target, cdir, depth + 1, "D")
            m.status[target] = "X"
            m.why[target] = "#[rustfmt::skip] on the declaration"
            return "#[rustfmt::skip]\nmod %s;\n" % name
        if "inline" in feats and k < 22:
            m.feats.add("inline")
            inl = "in_" + name
            target, cdir = place(os.path.join(childdir, inl), name)
            gen_file(target, cdir, depth + 1, st)
            return "mod %s {\n    mod %s;\n fn  q( ){ }\n}\n" % (inl, name)
        if "path" in feats and k < 38:
            m.feats.add("path")
            sub = rng.choice(["", "", "px/"])
            pth = "%sp_%s.rs" % (sub, name)
            target = os.path.normpath(os.path.join(ddir, pth))
            gen_file(target, os.path.dirname(target), depth + 1, st)
            return '#[path = "%s"]\nmod %s;\n' % (pth, name)
        if "cfg_attr_path" in feats and k < 48:
            m.feats.add("cfg_attr_path")
            alt = os.path.normpath(os.path.join(ddir, "alt_%s.rs" % name))
            before = set(m.status)
            gen_file(alt, os.path.dirname(alt), depth + 1, st)
            subtree = set(m.status) - before
            txt = '#[cfg_attr(feature = "x", path = "alt_%s.rs")]\nmod %s;\n' % (name, name)
            # (an alternate that opts out leaves only the default location: it must exist then)
            if rng.chance(60) or m.why.get(alt) == "inner skip attribute":
                target, cdir = place(childdir, name)
                gen_file(target, cdir, depth + 1, st)
                if m.why.get(target) == "inner skip attribute":
                    for f in subtree:
                        tags[f] = "alt-of-skipped-default"
            return txt
        if "cfg_if" in feats and k < 58:
            m.feats.add("cfg_if")
            target, cdir = place(childdir, name)
            gen_file(target, cdir, depth + 1, st)
            if st == "E":
                decls_for_fault.append((decl_file, name, target))
            other = "fn  nothing( ){ }"
            if rng.chance(20):
                # something the parser recovers from under the default edition, in an arm the compiler never looks into
                other = "pub async fn in_arm() {}\n        " + other
            if budget[0] > 0 and names and rng.chance(60):
                budget[0] -= 1
                n2 = names.pop(0)
                t2, c2 = place(childdir, n2)
                gen_file(t2, c2, depth + 1, st)
                other = other.replace("fn  nothing( ){ }", "mod %s;" % n2)
            nested = ""
            if budget[0] > 0 and names and rng.chance(25):
                # a cfg_if! directly inside the arm of another one: its modules are modules of this crate too
                budget[0] -= 1
                n3 = names.pop(0)
                t3, c3 = place(childdir, n3)
                before = set(m.status)
                gen_file(t3, c3, depth + 1, st)
                for f3 in set(m.status) - before:
                    tags[f3] = "nested-cfg-macro"
                nested = "        cfg_if::cfg_if! {\n            if #[cfg(target_os = \"linux\")] {\n                mod %s;\n            }\n        }\n" % n3
                m.feats.add("nested-cfg-macro")
            return "cfg_if::cfg_if! {\n    if #[cfg(unix)] {\n        mod %s;\n%s    } else {\n        %s\n    }\n}\n" % (name, nested, other)
        if "cfg_match" in feats and k < 66:
            m.feats.add("cfg_match")
            target, cdir = place(childdir, name)
            gen_file(target, cdir, depth + 1, st)
            return "std::cfg_match! {\n    unix => {\n        mod %s;\n    }\n    _ => {\n        fn  nothing2( ){ }\n    }\n}\n" % name
        target, cdir = place(childdir, name)
        placed.append((decl_file, kind_of(decl_file, decl_file == root), name, target))
        gen_file(target, cdir, depth + 1, st)
        if st == "E":
            decls_for_fault.append((decl_file, name, target))
        return "%smod %s;\n" % (rng.choice(["", "pub ", "pub(crate) "]), name)

    # root: optionally with a sibling directory named like its stem (nested-or-fallback children)
    rootdir = os.path.dirname(root)
    childdir = rootdir
    stem = os.path.splitext(os.path.basename(root))[0]
    stemdir_mode = None
    if "stemdir" in feats:
        # inline modules below a root that relies on the fallback are a gray zone of the heuristic: not generated
        stemdir_mode = rng.choice(["nested", "fallback", "file"]) if "inline" not in feats else rng.choice(["nested", "nested", "file"])
        m.feats.add("stemdir-" + stemdir_mode)
        if stemdir_mode == "nested":
            childdir = os.path.join(rootdir, stem)
        elif stemdir_mode == "file":
            # something that is not a directory carries the root's stem name (the executable `main` left next to
            # main.rs): the root stays an ordinary root, inline modules included
            m.files[os.path.join(rootdir, stem)] = "\x7fELF not a directory\n"
            m.status[os.path.join(rootdir, stem)] = "X"
            m.why[os.path.join(rootdir, stem)] = "not a source file (shares the root's stem)"
        else:
            m.files[os.path.join(rootdir, stem, "unrelated.txt")] = "not rust\n"
    root_status = "E"
    root_header = ""
    if "innerskip" in feats and rng.chance(8):
        root_header = "#![rustfmt::skip]\n"
        root_status = "X"
        m.why[root] = "inner skip attribute on the root"
    gen_file(root, childdir, 0, "E" if root_status == "E" else "D", is_root=True)
    if root_header:
        m.files[root] = root_header + m.files[root]
        m.status[root] = "X"
        for f in m.status:
            if f != root and m.status[f] == "E":
                m.status[f] = "D"
    # two modules sharing one module file through a symbolic link, each with its own child next to it
    if "symlinkmod" in feats and root_status == "E" and lane != "stdin":
        rd = os.path.dirname(root)
        pa, pb = os.path.join(childdir, "sla"), os.path.join(childdir, "slb")
        m.files[os.path.join(pa, "mod.rs")] = "mod slin;\n" + body()
        m.files[os.path.join(pa, "slin.rs")] = body()
        m.files[os.path.join(pb, "mod.rs")] = {"symlink": "../sla/mod.rs"}
        m.files[os.path.join(pb, "slin.rs")] = body()
        m.files[root] = insert_decls(m.files[root], "mod sla;\nmod slb;\n")
        for f in (os.path.join(pa, "mod.rs"), os.path.join(pa, "slin.rs"), os.path.join(pb, "slin.rs")):
            m.status[f] = "E"
        m.feats.add("symlinkmod")
    # a module directory that is a symbolic link to a directory elsewhere, whose mod.rs climbs out with `..`: the
    # operating system resolves `link/..` to the parent of the link's *target* (as the compiler does), not to the
    # directory holding the link, where a same-named file nobody declares sits
    if "symlinkdir" in feats and "ignore" not in feats and root_status == "E" and lane != "stdin":
        sh = os.path.join(base, "shared_sl")
        m.files[os.path.join(sh, "sub", "mod.rs")] = '#[path = "../slcommon.rs"]\nmod slcommon;\n' + body()
        m.files[os.path.join(sh, "slcommon.rs")] = body()
        m.files[os.path.join(childdir, "sld")] = {"symlink": os.path.relpath(os.path.join(sh, "sub"), childdir)}
        m.files[root] = insert_decls(m.files[root], "mod sld;\n")
        m.status[os.path.join(sh, "sub", "mod.rs")] = "E"
        m.status[os.path.join(sh, "slcommon.rs")] = "E"
        if rng.chance(70):
            d = os.path.join(childdir, "slcommon.rs")
            m.files[d] = gen_rust.tiny_unformatted("lexical_decoy")
            m.status[d] = "X"
            m.why[d] = "declared by no module (where folding `link/..` lexically would look)"
        m.feats.add("symlinkdir")
    # two sibling files declaring a same-named child: one has no directory of its own, so its child is found through
    # the fallback, next to it; the other has a proper nested child.  What was decided for the first must not be
    # reused for the second (either declaration order)
    if "fallbacksib" in feats and root_status == "E" and lane != "stdin":
        fx, fy = os.path.join(childdir, "fsx.rs"), os.path.join(childdir, "fsy.rs")
        if not any(p.startswith(os.path.join(childdir, "fsx") + "/") or p.startswith(os.path.join(childdir, "fsy") + "/") for p in m.files):
            m.files[fx] = "mod fsfoo;\n" + body()
            m.files[fy] = "mod fsfoo;\n" + body()
            m.files[os.path.join(childdir, "fsfoo.rs")] = body()
            m.files[os.path.join(childdir, "fsy", "fsfoo.rs")] = "mod fsdeep;\n" + body()
            m.files[os.path.join(childdir, "fsy", "fsfoo", "fsdeep.rs")] = body()
            m.files[root] = insert_decls(m.files[root], rng.choice(["mod fsx;\nmod fsy;\n", "mod fsx;\nmod fsy;\n", "mod fsy;\nmod fsx;\n"]))
            for f in (fx, fy, os.path.join(childdir, "fsfoo.rs"), os.path.join(childdir, "fsy", "fsfoo.rs"),
                      os.path.join(childdir, "fsy", "fsfoo", "fsdeep.rs")):
                m.status[f] = "E"
            m.feats.add("fallbacksib")
    # a file that opts out with an inner skip attribute and is named twice, the second time by a declaration with
    # cfg_attr(path) arms: it stays out, whatever the resolver remembers about having parsed it
    if "skiptwice" in feats and "stemdir" not in feats and root_status == "E" and lane != "stdin":
        rd = os.path.dirname(root)
        var = rng.below(3)
        skipped = "#![rustfmt::skip]\nfn  hand_aligned( ) { }\n"
        if var == 0:
            decl = ('#[cfg_attr(feature = "sk1", path = "sk_unix.rs")]\n#[cfg_attr(feature = "sk2", path = "sk_unix.rs")]\n'
                    '#[cfg_attr(feature = "sk3", path = "sk_win.rs")]\nmod sk_imp;\n')
            new = {"sk_unix.rs": ("X", skipped), "sk_win.rs": ("E", body()), "sk_imp.rs": ("E", body())}
        elif var == 1:
            decl = ('#[cfg(not(test))]\nmod sk_db;\n#[cfg(test)]\n#[cfg_attr(test, path = "sk_mock.rs")]\nmod sk_db;\n')
            new = {"sk_db.rs": ("X", skipped), "sk_mock.rs": ("E", body())}
        else:
            decl = ('#[path = "sk_tables.rs"]\nmod sk_a;\n#[cfg_attr(feature = "x", path = "sk_tables.rs")]\nmod sk_other;\n')
            new = {"sk_tables.rs": ("X", skipped), "sk_other.rs": ("E", body())}
        if not any(os.path.join(rd, f) in m.files for f in new):
            for f, (st, txt) in new.items():
                m.files[os.path.join(rd, f)] = txt
                m.status[os.path.join(rd, f)] = st
                if st == "X":
                    m.why[os.path.join(rd, f)] = "inner skip attribute"
            m.files[root] = insert_decls(m.files[root], decl)
            m.feats.add("skiptwice")
    # a file with a child, reached twice under different directory ownership: as `mod tw_x;` its child lives in
    # tw_x/, as `#[path = "tw_x.rs"] mod tw_y;` next to it -- the language reads both
    if "twiceowner" in feats and "stemdir" not in feats and root_status == "E" and lane == "normal":
        rd = os.path.dirname(root)
        if not any(p.startswith(os.path.join(rd, "tw_")) for p in m.files):
            m.files[os.path.join(rd, "tw_x.rs")] = "mod tw_child;\n" + body()
            m.files[os.path.join(rd, "tw_x", "tw_child.rs")] = body()
            m.files[os.path.join(rd, "tw_child.rs")] = body()
            order = rng.chance(50)
            d1, d2 = "mod tw_x;\n", '#[path = "tw_x.rs"]\nmod tw_y;\n'
            m.files[root] = insert_decls(m.files[root], (d1 + d2) if order else (d2 + d1))
            m.status[os.path.join(rd, "tw_x.rs")] = "E"
            for f in (os.path.join(rd, "tw_x", "tw_child.rs"), os.path.join(rd, "tw_child.rs")):
                m.status[f] = "E"
                tags[f] = "second-reach-other-ownership"
            m.feats.add("twiceowner")
    # a declaration whose only existing files are cfg_attr(path) candidates that opt out: a crate the compiler accepts;
    # there is nothing to format for it, and nothing missing either
    if "altskipped" in feats and "stemdir" not in feats and root_status == "E" and lane == "normal":
        rd = os.path.dirname(root)
        if not any(p.startswith(os.path.join(rd, "as_")) for p in m.files):
            for nm in ("as_unix.rs", "as_win.rs"):
                m.files[os.path.join(rd, nm)] = "#![cfg_attr(rustfmt, rustfmt::skip)]\nfn  hand_aligned( ) { }\n"
                m.status[os.path.join(rd, nm)] = "X"
                m.why[os.path.join(rd, nm)] = "inner skip attribute"
            m.files[root] = insert_decls(m.files[root], '#[cfg_attr(unix, path = "as_unix.rs")]\n#[cfg_attr(windows, path = "as_win.rs")]\nmod as_imp;\n')
            m.feats.add("altskipped")
            for f in list(m.status):
                if m.status[f] == "E":
                    tags[f] = "all-candidates-opt-out"
    # a file reached twice (same spelling / different spelling)
    twice = None
    if "twice" in feats and leafs and root_status == "E":
        t = rng.choice(leafs)
        if m.status.get(t) == "E" and t != root:
            how = rng.choice(["same", "respell"])
            relp = os.path.relpath(t, rootdir)
            if how == "same":
                extra = '#[path = "%s"]\nmod tw_a;\n#[path = "%s"]\nmod tw_b;\n' % (relp, relp)
            else:
                extra = '#[path = "%s"]\nmod tw_a;\n#[path = "./%s"]\nmod tw_b;\n' % (relp, os.path.join("..", os.path.basename(rootdir) or base, relp) if rootdir else relp)
            m.files[root] = insert_decls(m.files[root], extra)
            twice = {"file": t, "how": how}
            m.feats.add("twice-" + how)
    # ignore patterns
    cfg = []
    if "ignore" in feats and root_status == "E":
        cands = [f for f in m.order if f != root and m.status[f] == "E" and os.path.basename(f) != "mod.rs"]
        if cands:
            g = rng.choice(cands)
            gb = os.path.basename(g)
            shape = rng.below(5)
            if shape == 0:
                ignore_pats = [gb]
            elif shape == 1:
                ignore_pats = [gb[:2] + "*.rs", "!" + gb]
            elif shape == 2:
                ignore_pats = ["!" + gb, gb[:2] + "*.rs"]
            elif shape == 3:
                d = os.path.basename(os.path.dirname(g))
                ignore_pats = [d + "/"] if d and d not in ("c", "src") else [gb]
            else:
                ignore_pats = [gb, "decoy_*.rs"]
            m.feats.add("ignore")
    igd = None
    if "ignoredotdot" in feats and root_status == "E" and lane == "normal" and "stemdir" not in feats:
        # an ignored file declared through a path that climbs out of the root's directory and back: the entry names
        # the file, however its path is spelled
        rd = os.path.dirname(root)
        igd = os.path.join(base, "igd", "ig_gen.rs")
        up = os.path.relpath(igd, os.path.dirname(rd)) if rd != base else os.path.join(os.path.basename(base), "igd", "ig_gen.rs")
        m.files[igd] = body()
        m.files[root] = insert_decls(m.files[root], '#[path = "../%s"]\nmod ig_gen;\n' % up)
        m.status[igd] = "E"
        ignore_pats = list(ignore_pats) + [rng.choice(["igd/ig_gen.rs", "/igd/", "igd/*.rs"])]
        m.feats.add("ignoredotdot")
    igq = None
    mr = prng.Rng(prng.mix(rng.seed, "c13-dotdot-mirror"))  # a side stream: the main stream stays what it was
    if "ignoredotdot" in feats and root_status == "E" and lane == "normal" and "stemdir" not in feats and mr.chance(50):
        # the mirror image: a file in an ignored directory declares a module that lives outside that directory, through
        # a path that climbs out of it; that file is matched by no entry
        rd = os.path.dirname(root)
        igq = os.path.join(rd, "igq", "mod.rs")
        plain = os.path.join(rd, "igq_plain.rs")
        m.files[igq] = '#[path = "../igq_plain.rs"]\nmod igq_plain;\n' + gen_rust.tiny_unformatted("in_igq")
        m.files[plain] = gen_rust.tiny_unformatted("igq_plain")
        m.files[root] = insert_decls(m.files[root], "mod igq;\n")
        m.status[igq] = "E"
        m.status[plain] = "E"
        # (when the whole run fails for the known reason F61 every file carries that tag)
        tags[plain] = "all-candidates-opt-out" if "all-candidates-opt-out" in tags.values() else "declared-in-ignored-directory-through-dotdot"
        ignore_pats = list(ignore_pats) + [mr.choice(["igq/", "igq", "**/igq/"])]
        m.feats.add("ignoredotdot")
    if ignore_pats:
        cfg.append("ignore = [%s]" % ", ".join('"%s"' % p for p in ignore_pats))
        for f in list(m.status):
            relc = os.path.relpath(f, base)
            if m.status[f] == "E" and ignored(ignore_pats, relc):
                m.status[f] = "X"
                m.why[f] = "matched by ignore %s" % ignore_pats
    if igq:
        m.status[igq] = "X"
        m.why[igq] = "matched by ignore %s" % ignore_pats
    if igd:
        m.status[igd] = "X"
        m.why[igd] = "ignored-through-dotdot-spelling (entry of the ignore list, file declared as ../<dir>/igd/ig_gen.rs)"
    if generated_cfg:
        cfg.append("format_generated_files = false")
    if cfg:
        m.files[os.path.join(base, "rustfmt.toml")] = "\n".join(cfg) + "\n"
    # adversarial decoys: a same-named file where a *wrong* resolution rule would look
    if "adversarial" in feats:
        for df, kind, name, target in placed:
            ddir = os.path.dirname(df)
            if kind in ("modrs", "path"):
                stem = "mod" if kind == "modrs" else os.path.splitext(os.path.basename(df))[0]
                wrong = os.path.join(ddir, stem, name + ".rs")
            elif kind == "flat":
                wrong = os.path.join(ddir, name + ".rs")
            else:
                continue
            if os.path.normpath(wrong) in {os.path.normpath(p) for p in m.files} or not rng.chance(60):
                continue
            m.files[wrong] = gen_rust.tiny_unformatted("adversarial_decoy")
            m.status[wrong] = "X"
            m.why[wrong] = "declared by no module (decoy at the location a wrong resolution rule would pick)"
            m.feats.add("adversarial-decoy")
    # decoys
    decoys = []
    if "decoys" in feats:
        dirs = sorted({os.path.dirname(f) for f in m.order})
        for i in range(rng.range(1, 4)):
            rel = os.path.join(rng.choice(dirs), "decoy_%d.rs" % i)
            if rel not in m.files:
                m.files[rel] = gen_rust.tiny_unformatted("decoy")
                m.status[rel] = "X"
                m.why[rel] = "declared by no module"
                decoys.append(rel)
    if lane == "skip_children":
        for f in m.status:
            if f != root:
                m.status[f] = "X"
                m.why[f] = "skip_children"
    prelude = False
    if lane == "normal" and rng.chance(20):
        # another root, above the crate, with its own (harmless) project file, named first on the command line:
        # the crate's own rustfmt.toml must still be the one that decides its exclusions
        prelude = True
        m.files["pre.rs"] = gen_rust.tiny_unformatted("prelude")
        m.status["pre.rs"] = "E"
        m.files["rustfmt.toml"] = "max_width = 100\n"
        m.feats.add("outer-root-first")
    fault = None
    if lane == "fault" and root_status == "E" and "stemdir" not in feats and rng.chance(15):
        # a module declared inside an inline module of a non-root file: `im_y.rs: mod im_z { mod im_w; }` means
        # im_y/im_z/im_w.rs.  That file does not exist; a same-named file one level up (im_y/im_w.rs), which nothing
        # declares, does
        rd = os.path.dirname(root)
        m.files[os.path.join(rd, "im_y.rs")] = "mod im_z {\n    mod im_w;\n}\n" + body()
        m.files[os.path.join(rd, "im_y", "im_w.rs")] = gen_rust.tiny_unformatted("one_level_up")
        m.files[root] = insert_decls(m.files[root], "mod im_y;\n")
        m.status[os.path.join(rd, "im_y.rs")] = "E"
        m.status[os.path.join(rd, "im_y", "im_w.rs")] = "X"
        fault = {"kind": "inline-missing", "target": os.path.join(rd, "im_y", "im_z", "im_w.rs"), "decl_file": os.path.join(rd, "im_y.rs"), "name": "im_w"}
    elif lane == "fault" and root_status == "E" and "stemdir" not in feats and rng.chance(12):
        # a default module file with a cfg_attr(path) candidate next to it, briefly absent: found by the lookup, gone
        # when it is opened (an editor replacing it), back a moment later
        rd = os.path.dirname(root)
        m.files[os.path.join(rd, "bl_m.rs")] = body()
        m.files[os.path.join(rd, "bl_alt.rs")] = body()
        m.files[root] = insert_decls(m.files[root], '#[cfg_attr(feature = "bl", path = "bl_alt.rs")]\nmod bl_m;\n')
        m.status[os.path.join(rd, "bl_m.rs")] = "D"
        m.status[os.path.join(rd, "bl_alt.rs")] = "E"
        fault = {"kind": "blink", "target": os.path.join(rd, "bl_m.rs"), "decl_file": root, "name": "bl_m"}
    elif lane == "fault":
        decls_for_fault = [d for d in decls_for_fault if m.status.get(d[2]) == "E" and m.status.get(d[0]) in ("E",) and d[0] not in tags and d[2] not in tags]
        if decls_for_fault:
            df, name, target = rng.choice(decls_for_fault)
            kind = rng.choice(["missing", "ambiguous", "unreadable", "stat-error"])
            # a same-named file next to the declaring file: what a wrongly applied fallback would pick up
            fault = {"kind": kind, "target": target, "decl_file": df, "name": name, "sibling": rng.chance(60)}
        else:
            lane = "normal"
    return {
        "world": {"files": m.files}, "status": m.status, "why": m.why, "root": root, "base": base,
        "features": sorted(m.feats), "lane": lane, "fault": fault, "twice": twice, "tags": tags, "prelude": prelude,
        "spelling": rng.choice(["rel", "rel", "abs", "cwd", "symlink"]), "hashseed": rng.below(1 << 32),
        "lang_reach": list(m.order),
    }


RUSTC_OK_FEATS = {"modrs", "path", "inline", "decoys", "adversarial-decoy", "outer-root-first", "skipmod", "innerskip", "ignore", "generated-in-limit",
                  "generated-after-limit", "twice-same"}


def rustc_crosscheck(case, sc, v):
    """keep the model honest: for worlds without cfg / heuristic features the set of files the language reaches
    must be what rustc itself loads (--emit=dep-info); a disagreement is a harness error, never a violation"""
    import subprocess
    ti = core.toolinfo()
    out = os.path.join(sc.top, "deps.d")
    if os.path.exists(out):
        os.unlink(out)
    subprocess.run([ti["rustc"], "--emit=dep-info=" + out, "--crate-type", "lib", "--edition", "2021", case["root"]],
                   cwd=sc.root, env={"LD_LIBRARY_PATH": ti["sysroot_lib"], "PATH": "/usr/bin:/bin", "HOME": sc.top},
                   capture_output=True)
    if not os.path.exists(out):
        v.probe("rustc-crosscheck-no-depinfo")
        return
    with open(out) as f:
        first = f.readline()
    got = {os.path.normpath(p) for p in first.split(":", 1)[1].split()}
    want = {os.path.normpath(p) for p in case["lang_reach"]}
    v.probe("rustc-crosscheck")
    v.info["rustc_crosschecks"] = v.info.get("rustc_crosschecks", 0) + 1
    if got != want:
        v.add("HARNESS:model-disagrees-with-rustc", "rustc loads %s, the model says the language reaches %s" % (sorted(got), sorted(want)))


def execute(case):
    v = Verdict()
    status = case["status"]
    root = case["root"]
    lane = case["lane"]
    with core.Scratch() as sc:
        world = copy.deepcopy(case["world"])
        plan = []
        if lane == "fault":
            f = case["fault"]
            t = f["target"]
            if f["kind"] == "blink":
                # a fault-free run tells how often the file is looked at before it is opened, and what its
                # formatted text is
                sc.fresh_world(world)
                r0 = core.run_inv(sc, {"argv": [root], "cwd": ".", "hashseed": case["hashseed"]})
                v.account(r0, nontrivial=False)
                tn = os.path.normpath(t)
                evs = [e for e in r0.events if isinstance(e.path, str) and os.path.normpath(e.path) == tn]
                nstat = 0
                for e in evs:
                    if e.op == "open":
                        break
                    if e.op == "stat":
                        nstat += 1
                blink_fmt = core.read_rel(sc.root, t)
                plan = ["* open 1 %s errno 2" % tn, "* stat %d %s errno 2" % (nstat + 1, tn)]
            elif f["kind"] == "inline-missing":
                pass  # the world is built that way
            elif f["kind"] == "missing":
                del world["files"][t]
                sib = os.path.join(os.path.dirname(f["decl_file"]), "zz_unrelated.rs")
            elif f["kind"] == "ambiguous":
                other = (os.path.dirname(t) + ".rs") if os.path.basename(t) == "mod.rs" else os.path.join(os.path.splitext(t)[0], "mod.rs")
                if other in world["files"]:
                    v.probe("fault-not-applicable")
                    return v
                world["files"][other] = gen_rust.tiny_unformatted("amb")
                sib = os.path.join(os.path.dirname(f["decl_file"]), f.get("name", "zz") + ".rs")
                if f.get("sibling") and sib not in world["files"] and os.path.normpath(sib) not in (os.path.normpath(t), os.path.normpath(other)):
                    world["files"][sib] = gen_rust.tiny_unformatted("sibling_decoy")
            elif f["kind"] == "unreadable":
                plan = ["* open 1 %s errno 13" % os.path.normpath(t)]
            else:
                plan = ["* stat 1 %s errno %d" % (os.path.normpath(t), 13)]
        sc.fresh_world(world)
        if lane == "normal" and set(case["features"]) <= RUSTC_OK_FEATS and "lang_reach" in case:
            rustc_crosscheck(case, sc, v)
        snap0 = core.snapshot(sc.root)
        if case["spelling"] == "symlink":
            # the crate is reached through a symbolic link to its directory
            os.symlink(case["base"], os.path.join(sc.root, "clink"))
            snap0 = core.snapshot(sc.root)
            cwd, arg = ".", os.path.join("clink", os.path.relpath(root, case["base"]))
        elif case["spelling"] == "abs":
            cwd, arg = ".", "$ROOT/" + root
        elif case["spelling"] == "cwd":
            cwd, arg = os.path.dirname(root) or ".", os.path.basename(root)
        else:
            cwd, arg = ".", root
        argv = [arg]
        if case.get("prelude"):
            argv = [os.path.relpath("pre.rs", cwd)] + argv
        if lane == "skip_children":
            argv = ["--config", "skip_children=true"] + argv
        inv = {"argv": argv, "cwd": cwd, "hashseed": case["hashseed"], "plan": plan + core.legal_perturbation(case["hashseed"] // 3)}
        if lane == "stdin":
            inv = {"argv": [], "cwd": os.path.dirname(root) or ".", "hashseed": case["hashseed"],
                   "stdin": world["files"][root]}
        # the crate's own project file named through --config-path as its *directory*, spelled the way a user types it
        # (relative, with a dot, through a link): the same file, the same exclusions
        cfgp0 = os.path.join(case["base"], "rustfmt.toml")
        if lane == "normal" and cfgp0 in world["files"] and case["hashseed"] % 11 == 4 and case["hashseed"] % 5 != 0:
            rel = os.path.relpath(case["base"], cwd)
            opts = [rel, rel if rel == "." else "./" + rel, "$ROOT/" + case["base"] + "/.", "$ROOT/" + case["base"], os.path.join(rel, "..", os.path.basename(case["base"]))]
            if case["spelling"] == "symlink":
                opts += ["clink", "clink"]
            inv["argv"] = ["--config-path", opts[(case["hashseed"] // 11) % len(opts)]] + inv["argv"]
            v.probe("config-path-names-directory")
        # the project file that carries the exclusions cannot be examined (EACCES / ELOOP / EIO on its stat): the run
        # may fail for this crate, it may not carry on as if the file were absent and format what it excludes
        cfgfault = None
        cfgp = os.path.join(case["base"], "rustfmt.toml")
        if (lane == "normal" and cfgp in world["files"] and case["hashseed"] % 5 == 0
                and any(s == "X" and ("ignore" in case["why"].get(f, "") or "generated" in case["why"].get(f, "")) for f, s in status.items())):
            cfgfault = [13, 40, 5][case["hashseed"] // 5 % 3]
            inv["plan"] = ["* stat 1 %s errno %d" % (os.path.normpath(cfgp), cfgfault)] + inv["plan"]
            v.planned("config-stat-error")
        # --backup: the scratch names <stem>.tmp / <stem>.bk belong to the protocol only for files that are rewritten; a
        # neighbour that happens to be called <stem>.tmp is a file no module declares
        backup, bdecoy = False, None
        if lane == "normal" and not cfgfault and case["hashseed"] % 7 == 3 and case["spelling"] != "symlink" and "symlinkmod" not in case["features"]:
            backup = True
            inv["argv"] = ["--backup"] + inv["argv"]
            cands = sorted(f for f, s in status.items() if s == "E" and f.endswith(".rs") and f != "pre.rs")
            if cands and case["hashseed"] % 2:
                bdecoy = os.path.splitext(cands[(case["hashseed"] // 14) % len(cands)])[0] + ".tmp"
                if bdecoy in world["files"]:
                    bdecoy = None
                else:
                    world["files"][bdecoy] = "notes of the user, not a Rust source\n"
                    sc.fresh_world(world)
                    if case.get("prelude") or True:
                        snap0 = core.snapshot(sc.root)
        res = core.run_inv(sc, inv)
        v.account(res)
        if cfgfault and not any(e.fault and "on stat " in e.raw for e in res.events):
            cfgfault = None
        snap1 = core.snapshot(sc.root)
        diff = core.snap_diff(snap0, snap1)
        changed = {os.path.normpath(p) for p in diff}
        opened = {}
        for e in res.muts():
            if e.op == "open" and isinstance(e.path, str):
                p = os.path.normpath(e.path)
                opened[p] = opened.get(p, 0) + 1
        det = "features=%s lane=%s argv=%s status=%s" % (case["features"], lane, inv["argv"], res.status())
        ab = core.abnormal(res)
        if ab:
            v.add("C13:abnormal|%s" % ab, det + " stderr=%r" % core.text_of(res.stderr)[:300])
            return v
        if lane == "stdin":
            if changed or res.muts():
                v.add("C13:stdin-touches-files", "%s: %s" % (det, sorted(changed)[:3]))
            v.sample = {"lane": lane, "files": sorted(world["files"])}
            return v
        if lane == "fault":
            if plan and not any(e.fault and "errno=4 " not in e.raw + " " for e in res.events):
                v.probe("fault-not-reached")
                return v
            v.planned(case["fault"]["kind"]); v.fired(case["fault"]["kind"])
            if case["fault"]["kind"] == "blink":
                # whatever the run makes of the absence (an error, or the candidate only): the file that came back
                # holds its own text -- original or formatted --, never something else
                t = case["fault"]["target"]
                cur = core.read_rel(sc.root, t)
                origt = core.file_bytes(world["files"][t])
                if cur not in (origt, blink_fmt):
                    v.add("C13:foreign-content-after-transient-absence", "%s was briefly absent when the run opened it and now holds %d bytes that are neither its original nor its formatted text; %s" % (t, len(cur or b""), det), file=t)
                if core.abnormal(res):
                    v.add("C13:abnormal|blink", det)
                v.sample = {"lane": lane, "fault": case["fault"], "status": res.status()}
                return v
            if case["fault"]["kind"] == "stat-error":
                # the candidate cannot be examined: either an error, or the other candidate; never a write
                # before the error is known
                if res.exit == 0:
                    v.probe("stat-error-tolerated")
                    return v
            if res.exit != 1 or not core.text_of(res.stderr).strip():
                v.add("C13:bad-module-not-an-error|%s" % case["fault"]["kind"], det + " stderr=%r" % core.text_of(res.stderr)[:200])
            if changed or res.muts():
                v.add("C13:write-despite-bad-module|%s" % case["fault"]["kind"], "%s: %s" % (det, sorted(changed)[:3]))
            v.sample = {"lane": lane, "fault": case["fault"], "status": res.status()}
            return v
        if cfgfault:
            v.fired("config-stat-error")
            if res.exit != 0:
                bad = sorted(changed - {"pre.rs"})
                if bad:
                    v.add("C13:write-despite-config-error", "the crate's rustfmt.toml could not be examined (errno %d), the run failed, yet %s changed; %s" % (cfgfault, bad[:3], det))
                if not core.text_of(res.stderr).strip():
                    v.add("C13:silent-failure|config-stat-error", det)
                v.sample = {"lane": "config-stat-error", "errno": cfgfault, "status": res.status()}
                return v
            # tolerated: then the exclusions below still hold
        if res.exit != 0:
            # the model says this tree is fine: a failing run shows up below as reachable files left unformatted
            v.probe("run-failed")
            v.info["run_failed"] = 1
        E = {f for f, s in status.items() if s == "E"}
        X = {f for f, s in status.items() if s == "X"}
        D = {f for f, s in status.items() if s == "D"}
        tw = case.get("twice")
        for f in sorted(E):
            if f not in changed:
                v.add("C13:reachable-file-not-formatted|%s" % _featclass(case, f), "%s is reachable and not excluded but was not rewritten; %s" % (f, det), file=f)
        if backup:
            v.probe("backup-mode")
            # (the .bk of a file that was rewritten is a consequence; whether that file may be rewritten is judged below)
            bks = {os.path.splitext(f)[0] + ".bk" for f in E | D | {g for g in changed if g.endswith(".rs")}}
            if bdecoy and bdecoy in changed:
                v.add("C13:foreign-file-written|backup-scratch-name", "%s (a neighbour no module declares) was overwritten / removed by --backup; %s" % (bdecoy, det), file=bdecoy)
            changed = {f for f in changed if f not in bks and f != bdecoy}
        for f in sorted(changed):
            if f in X:
                v.add("C13:excluded-file-formatted|%s" % (case["why"].get(f, "?").split(" ")[0]), "%s (%s) was rewritten; %s" % (f, case["why"].get(f), det), file=f)
            elif f not in E and f not in D:
                v.add("C13:foreign-file-written", "%s is not part of the crate; %s" % (f, det), file=f)
        if backup:
            # results go through <stem>.tmp: count them for the file they are moved over
            bystem = {}
            for f in E | D:
                bystem.setdefault(os.path.splitext(f)[0] + ".tmp", []).append(f)
            o2 = {}
            for p, n in opened.items():
                q = bystem[p][0] if len(bystem.get(p, [])) == 1 else p
                o2[q] = o2.get(q, 0) + n
            opened = o2
        for f, n in sorted(opened.items()):
            if n > 1:
                how = tw["how"] if tw and tw["file"] == f else "?"
                v.add("C13:file-written-twice|%s" % how, "%s opened for writing %d times; %s" % (f, n, det), file=f)
        for f in sorted(set(opened) - changed):
            pass
        # hash-seed independence of the whole event history
        base_sig = [(e.op, e.path if isinstance(e.path, str) else "", e.res) for e in res.events if e.op in ("open", "rename", "write")]
        for k in (1, 2):
            sc.fresh_world(world)
            if case["spelling"] == "symlink":
                os.symlink(case["base"], os.path.join(sc.root, "clink"))
            inv2 = dict(inv)
            inv2["hashseed"] = (case["hashseed"] + k * 15485863) & 0xFFFFFFFF
            r2 = core.run_inv(sc, inv2)
            v.account(r2, nontrivial=False)
            sig2 = [(e.op, e.path if isinstance(e.path, str) else "", e.res) for e in r2.events if e.op in ("open", "rename", "write")]
            if sig2 != base_sig or r2.exit != res.exit:
                v.add("C13:hashseed-dependence", "event history differs under another hash seed; %s" % det)
                break
        for ft in case["features"]:
            v.probe("feature:" + ft)
        if D:
            v.probe("dont-care-files")
        v.sample = {"files": sorted(world["files"]), "E": sorted(E), "X": {f: case["why"].get(f) for f in sorted(X)}, "D": sorted(D),
                    "argv": inv["argv"], "cwd": cwd, "root_text": core.file_bytes(world["files"][root]).decode()[:400]}
    return v


def _featclass(case, f):
    if f in case.get("tags", {}):
        return case["tags"][f]
    fs = [x for x in case["features"] if x in ("ignore", "cfg_if", "cfg_match", "cfg_attr_path", "inline", "path", "modrs") or x.startswith(("stemdir", "twice", "generated"))]
    return ",".join(fs[:4]) or "plain"


def shrinks(case):
    if case["spelling"] != "rel":
        c = copy.deepcopy(case); c["spelling"] = "rel"; yield c
    # drop decoys and other X/D leaves whose removal does not orphan a declaration
    for f, s in list(case["status"].items()):
        if case["why"].get(f) == "declared by no module":
            c = copy.deepcopy(case)
            del c["world"]["files"][f]; del c["status"][f]
            yield c
